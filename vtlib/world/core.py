"""The simulated world: kernel (process table, signals, waitpid), psutil.Popen, os, clock, event
loop selector, zmq, json capture.  Stubs only -- no circus logic lives here.  Every stub is part
of every claim made on top of it (DESIGN.md section 2.2).

Installed by monkey-patching module attributes of the imported circus modules; nothing in /repo is
changed.  One World per harness execution (per CrossHair path); everything is deterministic.
"""
import asyncio
import asyncio.events as _aevents
import errno
import os as _os
import selectors
import signal as _signal
import time as _time
import types

import psutil as _psutil

DAEMON_PID = 1000
SIGKILL = int(_signal.SIGKILL)
SIGSTOP = int(_signal.SIGSTOP)


class Diverged(Exception):
    """The scenario exceeded its step / virtual-time budget."""


class BlockedLoop(Exception):
    """time.sleep consumed more virtual time inside one callback than the watchdog allows."""


# =============================================================================================
# clock
class Clock(object):
    def __init__(self, t0=1000.0):
        self.now = t0
        self.blocked_in_callback = 0.0
        self.blocked_max = 0.0
        self.blocked_total = 0.0
        self.sleep_calls = 0
        self.watchdog = 5.0
        self.tripped = False
        self.calls_in_callback = 0   # kernel calls made since the loop last got control (busy-loop guard)
        self.max_calls_in_callback = 3000

    def time(self):
        return self.now

    def monotonic(self):
        return self.now

    def sleep(self, d):
        self.sleep_calls += 1
        self.now += d
        self.blocked_in_callback += d
        self.blocked_total += d
        if self.blocked_in_callback > self.blocked_max:
            self.blocked_max = self.blocked_in_callback
        if self.tripped or self.blocked_in_callback > self.watchdog:
            self.tripped = True
            raise BlockedLoop('time.sleep consumed %.3fs inside one loop callback' % self.blocked_in_callback)

    def spend(self, d):
        """virtual time consumed synchronously by the daemon itself (e.g. fork/exec): counts as blocking the loop"""
        self.now += d
        self.blocked_in_callback += d
        self.blocked_total += d
        if self.blocked_in_callback > self.blocked_max:
            self.blocked_max = self.blocked_in_callback

    def syscall(self):
        """a loop callback that makes thousands of kernel calls without ever returning to the loop is a busy loop"""
        self.calls_in_callback += 1
        if self.tripped:
            raise BlockedLoop('the loop thread is already blocked (nothing is served any more)')
        if self.calls_in_callback > self.max_calls_in_callback:
            self.tripped = True
            raise BlockedLoop('%d kernel calls inside one loop callback (busy loop)' % self.calls_in_callback)

    def new_callback(self):
        self.calls_in_callback = 0
        self.blocked_in_callback = 0.0

    def as_module(self):
        m = types.SimpleNamespace()
        m.time = self.time
        m.sleep = self.sleep
        m.monotonic = self.monotonic
        m.strftime = _time.strftime
        m.localtime = _time.localtime
        m.gmtime = _time.gmtime
        m.mktime = _time.mktime
        m.timezone = _time.timezone
        m.altzone = _time.altzone
        m.daylight = _time.daylight
        m.process_time = _time.process_time
        m.perf_counter = self.time
        return m


# =============================================================================================
# kernel
class Beh(object):
    """How a process reacts.  obey: delay in seconds before it dies from a catchable signal, or None
    to ignore catchable signals.  exit_at: virtual time at which it exits by itself (or None).
    nchildren: child processes it forks at start; child_obey: their reaction (same convention)."""

    def __init__(self, obey=0.0, exit_at=None, exit_status=0, nchildren=0, child_obey=0.0,
                 grandchildren=0, die_as='signal', ignore=()):
        self.obey = obey
        self.exit_at = exit_at
        self.exit_status = exit_status
        self.nchildren = nchildren
        self.child_obey = child_obey
        self.grandchildren = grandchildren
        self.die_as = die_as      # 'signal': killed by the signal; 'exit0': handler exits 0
        self.ignore = tuple(ignore)  # signal numbers the process handles and survives (e.g. SIGHUP = reload)


class KProc(object):
    def __init__(self, pid, ppid, beh, t):
        self.pid = pid
        self.ppid = ppid
        self.orig_ppid = ppid
        self.beh = beh
        self.state = 'alive'        # alive | zombie | gone
        self.status = None          # wait status once dead
        self.t_spawn = t
        self.t_death = None
        self.die_at = None          # scheduled death (virtual time, status)
        self.argv = None
        self.env = None
        self.cwd = None
        self.close_fds = None
        self.shell = None
        self.executable = None
        self.tag = None             # watcher name (set by the harness wrapper around Process.spawn)
        self.stdout = None
        self.stderr = None
        self.passed_fds = ()
        self.reaped_by = None
        self.death_how = None       # injected | self-exit | external | signal (delivered by somebody in this world)
        self.death_call = None


def status_exit(code):
    return (code & 0xff) << 8


def status_signal(sig):
    return sig & 0x7f


class Kernel(object):
    def __init__(self, clock):
        self.clock = clock
        self.procs = {}
        self.next_pid = 2001
        self.calls = 0
        self.spawn_log = []         # dicts
        self.signal_log = []        # dicts: t, pid, sig, target_state, delivered
        self.reap_log = []          # (t, pid, status, how)
        self.call_log = []
        self.injections = []        # dicts: at_call, victim ('nth',k)|('pid',p), status
        self.spawn_error_tags = {}    # watcher name -> exception raised by every spawn made for it
        self.spawn_error_from = None  # (first failing attempt index, exception): every later attempt fails too
        self.spawn_failures = set()  # spawn attempt indices (0-based) that raise OSError
        self.spawn_attempts = 0
        self.behaviour = lambda index, argv: Beh()
        self.current_tag = None
        self.pipes = None           # PipeTable or None
        self.external = {}          # pid -> KProc not children of the daemon (unrelated processes)
        self.spawn_cost = 0.001
        self.spawn_errors = {}       # spawn attempt index -> exception instance to raise (unexpected failure)
        self.kill_errors = set()     # indices (0-based count of kill() calls) that fail with EPERM
        self.kill_count = 0
        self.kill_latency = 0.0005    # a SIGKILLed process needs a moment to become a zombie (never instantaneous on a real kernel)

    # ------------------------------------------------------------------ time / injections
    def tick(self, entry):
        self.calls += 1
        self.clock.syscall()
        if len(self.call_log) < 400:
            self.call_log.append(entry)
        for inj in self.injections:
            if not inj.get('done') and self.calls >= inj['at_call']:
                inj['done'] = True
                p = self._victim(inj['victim'])
                if p is not None and p.state == 'alive':
                    self._die(p, inj['status'], 'injected')
                    inj['hit'] = p.pid
                    inj['hit_call'] = self.calls
        self.advance()

    def advance(self):
        """apply every scheduled death that is due at the current virtual time"""
        now = self.clock.now
        again = True
        while again:
            again = False
            for p in list(self.procs.values()) + list(self.external.values()):
                if p.state == 'alive' and p.die_at is not None and p.die_at[0] <= now + 1e-9:
                    self._die(p, p.die_at[1], 'scheduled', t=p.die_at[0])
                    again = True

    def _victim(self, sel):
        kind, k = sel
        if kind == 'pid':
            return self.procs.get(k)
        alive = [p for p in sorted(self.procs.values(), key=lambda q: q.pid)
                 if p.state == 'alive' and p.orig_ppid == DAEMON_PID]
        if kind == 'nth':          # k-th live worker (by pid), modulo
            return alive[k % len(alive)] if alive else None
        if kind == 'newest':
            return alive[-1] if alive else None
        return None

    def _die(self, p, status, how, t=None):
        p.state = 'zombie'
        p.status = status
        p.t_death = self.clock.now if t is None else t
        p.death_how = how
        p.death_call = self.calls
        p.die_at = None
        # orphans are re-parented to init
        for c in self.procs.values():
            if c.ppid == p.pid:
                c.ppid = 1
        if self.pipes is not None:
            self.pipes.writer_closed(p)
        if p.ppid != DAEMON_PID:
            # nobody in this world waits for it: init reaps at once
            p.state = 'gone'
            p.reaped_by = 'init'

    # ------------------------------------------------------------------ spawn
    def spawn(self, argv, cwd=None, env=None, close_fds=True, shell=False, executable=None,
              stdout=None, stderr=None):
        self.tick('spawn')
        idx = self.spawn_attempts
        self.spawn_attempts += 1
        if idx in self.spawn_failures:
            raise OSError(errno.ENOENT, 'No such file or directory (injected exec failure)')
        if idx in self.spawn_errors:
            raise self.spawn_errors[idx]
        if self.current_tag in self.spawn_error_tags:
            raise self.spawn_error_tags[self.current_tag]     # every spawn made for that watcher fails (e.g. refused in the pre-exec step)
        if self.spawn_error_from is not None and idx >= self.spawn_error_from[0]:
            raise self.spawn_error_from[1]         # a persistent condition (EAGAIN: process table / RLIMIT_NPROC exhausted)
        pid = self.next_pid
        self.next_pid += 1
        beh = self.behaviour(len(self.spawn_log), argv)
        p = KProc(pid, DAEMON_PID, beh, self.clock.now)
        p.argv, p.cwd, p.env, p.close_fds, p.shell, p.executable = argv, cwd, env, close_fds, shell, executable
        p.tag = self.current_tag
        if beh.exit_at is not None:
            p.die_at = (beh.exit_at, status_exit(beh.exit_status))
        self.procs[pid] = p
        for _ in range(beh.nchildren):
            cpid = self.next_pid
            self.next_pid += 1
            c = KProc(cpid, pid, Beh(obey=beh.child_obey), self.clock.now)
            c.tag = p.tag
            self.procs[cpid] = c
            for _g in range(beh.grandchildren):
                gpid = self.next_pid
                self.next_pid += 1
                g = KProc(gpid, cpid, Beh(obey=beh.child_obey), self.clock.now)
                g.tag = p.tag
                self.procs[gpid] = g
        if self.pipes is not None:
            p.stdout = self.pipes.new_pipe(p, 'stdout') if stdout is not None else None
            p.stderr = self.pipes.new_pipe(p, 'stderr') if stderr is not None else None
        # fork/exec is not instantaneous: consecutive spawns never share a timestamp
        self.clock.spend(self.spawn_cost)
        self.spawn_log.append({'t': p.t_spawn, 'pid': pid, 'argv': argv, 'cwd': cwd, 'env': env,
                               'close_fds': close_fds, 'shell': shell, 'tag': p.tag,
                               'executable': executable, 'call': self.calls})
        return p

    def add_external(self, obey=0.0):
        """an unrelated live process that is NOT a child of the daemon"""
        pid = self.next_pid
        self.next_pid += 1
        p = KProc(pid, 1, Beh(obey=obey), self.clock.now)
        p.orig_ppid = 1
        self.external[pid] = p
        return p

    # ------------------------------------------------------------------ signals
    def lookup(self, pid):
        return self.procs.get(pid) or self.external.get(pid)

    def kill(self, pid, sig, via='os.kill'):
        self.tick('kill')
        n = self.kill_count
        self.kill_count += 1
        if n in self.kill_errors:
            raise PermissionError(errno.EPERM, 'Operation not permitted (injected)')
        p = self.lookup(pid)
        sig = int(sig)
        if not 0 <= sig <= 64:
            raise OSError(errno.EINVAL, 'Invalid argument')          # kill(2) with a number that is no signal
        if p is None or p.state == 'gone':
            self.signal_log.append({'t': self.clock.now, 'pid': pid, 'sig': sig, 'target': 'gone',
                                    'tag': p.tag if p else None, 'via': via, 'call': self.calls})
            raise ProcessLookupError(errno.ESRCH, 'No such process')
        self.signal_log.append({'t': self.clock.now, 'pid': pid, 'sig': sig, 'target': p.state,
                                'tag': p.tag, 'via': via, 'call': self.calls,
                                'ppid': p.orig_ppid})
        if sig == 0 or p.state != 'alive':
            return
        if sig == SIGKILL:
            when = self.clock.now + self.kill_latency
            if self.kill_latency <= 0:
                self._die(p, status_signal(SIGKILL), 'sigkill')
            elif p.die_at is None or when < p.die_at[0]:
                p.die_at = (when, status_signal(SIGKILL))
        elif sig in (SIGSTOP, int(_signal.SIGCONT), int(_signal.SIGCHLD), int(_signal.SIGWINCH),
                     int(_signal.SIGURG)):
            return
        else:
            if p.beh.obey is None or sig in p.beh.ignore:
                return
            st = status_signal(sig) if p.beh.die_as == 'signal' else status_exit(0)
            when = self.clock.now + p.beh.obey
            if p.beh.obey <= 0:
                self._die(p, st, 'signal')
            elif p.die_at is None or when < p.die_at[0]:
                p.die_at = (when, st)

    def external_kill(self, pid, sig=SIGKILL):
        """a signal sent by somebody else (not logged as the daemon's)"""
        p = self.lookup(pid)
        if p is not None and p.state == 'alive':
            self._die(p, status_signal(sig), 'external')

    # ------------------------------------------------------------------ wait
    def waitpid(self, pid, options):
        self.tick('waitpid')
        if pid == -1:
            kids = [p for p in self.procs.values() if p.ppid == DAEMON_PID and p.state != 'gone']
            if not kids:
                raise ChildProcessError(errno.ECHILD, 'No child processes')
            z = sorted([p for p in kids if p.state == 'zombie'], key=lambda q: q.pid)
            if not z:
                return (0, 0)
            return self._reap(z[0], 'waitpid(-1)')
        p = self.procs.get(pid)
        if p is None or p.state == 'gone' or p.ppid != DAEMON_PID:
            raise ChildProcessError(errno.ECHILD, 'No child processes')
        if p.state == 'alive':
            return (0, 0)
        return self._reap(p, 'waitpid(pid)')

    def _reap(self, p, how):
        p.state = 'gone'
        p.reaped_by = how
        self.reap_log.append((self.clock.now, p.pid, p.status, how))
        return (p.pid, p.status)

    # ------------------------------------------------------------------ queries for oracles
    def children_of(self, pid, recursive=False):
        out = []
        for c in sorted(self.procs.values(), key=lambda q: q.pid):
            if c.ppid == pid and c.state != 'gone':
                out.append(c)
                if recursive:
                    out.extend(self.children_of(c.pid, True))
        return out

    def workers(self, tag=None, states=('alive', 'zombie')):
        return [p for p in sorted(self.procs.values(), key=lambda q: q.pid)
                if p.orig_ppid == DAEMON_PID and p.state in states and (tag is None or p.tag == tag)]

    def alive_pids(self, tag=None):
        return [p.pid for p in self.workers(tag, ('alive',))]

    def zombie_pids(self, tag=None):
        return [p.pid for p in self.workers(tag, ('zombie',))]


# wait-status macros, written with div/mod by constants (linear for the solver) instead of bit operations;
# equal to glibc's definitions on every 16-bit status (lemma c09_wait_macros).
def WIFSIGNALED(st):
    low = st % 128
    return low != 0 and low != 127


def WTERMSIG(st):
    return st % 128


def WIFEXITED(st):
    return st % 128 == 0


def WEXITSTATUS(st):
    return (st // 256) % 256


# =============================================================================================
# psutil.Popen
class FakeChild(object):
    def __init__(self, kernel, kp):
        self._k = kernel
        self.pid = kp.pid

    def send_signal(self, sig):
        try:
            self._k.kill(self.pid, sig, via='child.send_signal')
        except ProcessLookupError:
            raise _psutil.NoSuchProcess(self.pid)


class FakePopen(object):
    """psutil.Popen as circus.process uses it (contract: psutil 7 / subprocess semantics)."""

    def __init__(self, kernel, args, cwd=None, shell=False, preexec_fn=None, env=None, close_fds=True,
                 executable=None, stdout=None, stderr=None, **kw):
        self._k = kernel
        kp = kernel.spawn(args, cwd=cwd, env=env, close_fds=close_fds, shell=shell,
                          executable=executable, stdout=stdout, stderr=stderr)
        kp.passed_fds = tuple(kw.get('pass_fds', ()))
        self._kp = kp
        self.pid = kp.pid
        self.returncode = None
        self.stdout = kp.stdout
        self.stderr = kp.stderr
        self.args = args

    # subprocess.Popen.poll
    def poll(self):
        if self.returncode is None:
            try:
                pid, st = self._k.waitpid(self.pid, _os.WNOHANG)
                if pid == self.pid:
                    self._k.reap_log[-1] = self._k.reap_log[-1][:3] + ('poll',)
                    self._kp.reaped_by = 'poll'
                    if WIFSIGNALED(st):
                        self.returncode = -WTERMSIG(st)
                    else:
                        self.returncode = WEXITSTATUS(st)
            except ChildProcessError:
                # somebody else (waitpid(-1)) reaped it: subprocess reports 0
                self.returncode = 0
        return self.returncode

    def wait(self, timeout=None):
        r = self.poll()
        if r is None:
            raise _psutil.TimeoutExpired(timeout, pid=self.pid)
        return r

    # psutil.Process API
    def send_signal(self, sig):
        try:
            self._k.kill(self.pid, sig, via='send_signal')
        except ProcessLookupError:
            raise _psutil.NoSuchProcess(self.pid)
        except PermissionError:
            raise _psutil.AccessDenied(self.pid)

    def terminate(self):
        self.send_signal(_signal.SIGTERM)

    def kill(self):
        self.send_signal(_signal.SIGKILL)

    def status(self):
        self._k.tick('status')
        st = self._kp.state
        if st == 'alive':
            return _psutil.STATUS_SLEEPING
        if st == 'zombie':
            return _psutil.STATUS_ZOMBIE
        raise _psutil.NoSuchProcess(self.pid)

    def is_running(self):
        self._k.tick('is_running')
        return self._kp.state != 'gone'

    def children(self, recursive=False):
        self._k.tick('children')
        if self._kp.state == 'gone':
            raise _psutil.NoSuchProcess(self.pid)
        return [FakeChild(self._k, c) for c in self._k.children_of(self.pid, recursive)]

    # what circus.util.get_info needs
    def memory_info(self):
        self._gone_check()
        return (1024, 2048)

    def cpu_percent(self, interval=None):
        self._gone_check()
        return 0.0

    def memory_percent(self):
        self._gone_check()
        return 0.1

    def cpu_times(self):
        self._gone_check()
        return (0.0, 0.0)

    def nice(self):
        self._gone_check()
        return 0

    def cmdline(self):
        self._gone_check()
        a = self.args
        return list(a) if isinstance(a, (list, tuple)) else [a]

    def create_time(self):
        self._gone_check()
        return self._kp.t_spawn

    def username(self):
        self._gone_check()
        return 'user'

    def _gone_check(self):
        if self._kp.state == 'gone':
            raise _psutil.NoSuchProcess(self.pid)


# =============================================================================================
# os
class FakeOS(object):
    """`os` as seen by circus.watcher / circus.arbiter / circus.stream.redirector"""

    def __init__(self, kernel):
        self._k = kernel
        self.WIFSIGNALED = WIFSIGNALED
        self.WTERMSIG = WTERMSIG
        self.WIFEXITED = WIFEXITED
        self.WEXITSTATUS = WEXITSTATUS

    def waitpid(self, pid, options):
        return self._k.waitpid(pid, options)

    def kill(self, pid, sig):
        return self._k.kill(pid, sig)

    def getpid(self):
        return DAEMON_PID

    def umask(self, m):
        return 0o022

    def read(self, fd, n):
        if self._k.pipes is None:
            raise OSError(errno.EBADF, 'bad fd')
        return self._k.pipes.read(fd, n)

    def __getattr__(self, name):
        return getattr(_os, name)


# =============================================================================================
# event loop
class FakeSelector(object):
    """selector of the asyncio loop: jumps the virtual clock to the next timer; fake pipes are the
    only file objects that ever become ready."""

    def __init__(self, world):
        self.world = world
        self.keys = {}

    def register(self, fileobj, events, data=None):
        fd = fileobj if isinstance(fileobj, int) else fileobj.fileno()
        if fd in self.keys:
            raise KeyError('%r already registered' % fd)
        key = selectors.SelectorKey(fileobj, fd, events, data)
        self.keys[fd] = key
        return key

    def unregister(self, fileobj):
        fd = fileobj if isinstance(fileobj, int) else fileobj.fileno()
        return self.keys.pop(fd)

    def modify(self, fileobj, events, data=None):
        fd = fileobj if isinstance(fileobj, int) else fileobj.fileno()
        if fd not in self.keys:
            raise KeyError(fd)
        key = selectors.SelectorKey(fileobj, fd, events, data)
        self.keys[fd] = key
        return key

    def get_key(self, fileobj):
        fd = fileobj if isinstance(fileobj, int) else fileobj.fileno()
        return self.keys[fd]

    def get_map(self):
        return self.keys

    def close(self):
        self.keys.clear()

    def select(self, timeout=None):
        w = self.world
        ready = []
        pipes = w.kernel.pipes
        if pipes is not None:
            for fd, key in sorted(self.keys.items()):
                if key.events & selectors.EVENT_READ and pipes.readable(fd):
                    ready.append((key, selectors.EVENT_READ))
                    w.select_ready_events += 1
        if ready:
            return ready
        # a process signal that arrives while the loop thread sleeps in select(): the Python-level handler runs at once, the system
        # call is then resumed (PEP 475) -- unless the handler woke the loop through its self-pipe (call_soon_threadsafe /
        # add_callback_from_signal), in which case select returns immediately
        target = None if timeout is None else w.clock.now + max(timeout, 0)
        while getattr(w, 'os_signals', None):
            due = [x for x in w.os_signals if target is None or x[0] <= target]
            if not due:
                break
            t_sig, handler = min(due, key=lambda x: x[0])
            w.os_signals.remove((t_sig, handler))
            if t_sig > w.clock.now:
                w.clock.now = t_sig
                w.kernel.advance()
            w.woken = False
            handler()
            if w.woken:
                w.woken = False
                return []
        if timeout is None:
            w.idle = True
            return []
        if target > w.clock.now:
            w.clock.now = target
            w.kernel.advance()
        return []


class VLoop(asyncio.SelectorEventLoop):
    def __init__(self, world):
        self._world = world
        super().__init__(selector=FakeSelector(world))
        self._clock_resolution = 1e-9

    def _make_self_pipe(self):
        self._ssock = None
        self._csock = None
        self._internal_fds = 0

    def _close_self_pipe(self):
        pass

    def time(self):
        return self._world.clock.now

    def _write_to_self(self):
        self._world.woken = True          # the self-pipe: wakes a select() in progress

    def call_exception_handler(self, context):
        self._world.loop_exceptions.append(context)

    def __deepcopy__(self, memo):
        return self

    def __copy__(self):
        return self


# =============================================================================================
# zmq
class FakeSocket(object):
    def __init__(self, ctx, kind):
        self.ctx = ctx
        self.kind = kind
        self.closed = False
        self.linger = None
        self.bound = []
        self.sent = []
        self.opts = {}

    def bind(self, ep):
        self.bound.append(ep)

    def connect(self, ep):
        self.bound.append(ep)

    def setsockopt(self, k, v):
        self.opts[k] = v

    def send_multipart(self, parts, *a, **k):
        if self.closed:
            import zmq
            raise zmq.ZMQError(errno.ENOTSOCK)
        self.sent.append(parts)
        self.ctx.world.on_publish(parts)

    def close(self, *a, **k):
        self.closed = True

    def fileno(self):
        return 900 + id(self) % 50


class FakeContext(object):
    def __init__(self, world):
        self.world = world
        self.sockets = []

    def socket(self, kind):
        s = FakeSocket(self, kind)
        self.sockets.append(s)
        return s

    def term(self):
        pass

    def destroy(self, *a, **k):
        pass


class FakeStream(object):
    """zmq.eventloop.zmqstream.ZMQStream for the ROUTER socket: captures reply frames"""

    def __init__(self, socket, loop=None):
        self.socket = socket
        self.loop = loop
        self.cb = None
        self._closed = False
        self.frames = []
        self.flushes = 0
        world = socket.ctx.world
        world.streams.append(self)
        self.world = world

    def on_recv(self, cb, copy=True):
        self.cb = cb

    def stop_on_recv(self):
        self.cb = None

    def send(self, msg, flags=0, copy=True, track=False, callback=None, **kw):
        if self._closed:
            raise IOError('stream is closed')
        self.frames.append(msg)
        self.world.on_frame(self, msg)

    def flush(self, *a, **k):
        self.flushes += 1
        return 0

    def close(self, *a, **k):
        self._closed = True

    def closed(self):
        return self._closed


def _copy_tree(o):
    """copy dict/list structure, keep the leaves (possibly symbolic) as they are"""
    if isinstance(o, dict):
        return {k: _copy_tree(v) for k, v in o.items()}
    if isinstance(o, list):
        return [_copy_tree(v) for v in o]
    return o


class JsonCapture(object):
    """zmq.utils.jsonapi stand-in.  ``dumps`` keeps the object (no rendering of symbolic values to
    text) and returns a token; ``loads`` of a registered key returns the prepared object, any other
    input goes to the real codec."""

    def __init__(self):
        import zmq.utils.jsonapi as real
        self.real = real
        self.registry = {}
        self.dumped = []

    def register(self, obj):
        key = b'@req%d' % len(self.registry)
        self.registry[key] = obj
        return key

    def loads(self, s, **kw):
        k = s if isinstance(s, bytes) else (s.encode() if isinstance(s, str) else s)
        if k in self.registry:
            return _copy_tree(self.registry[k])
        return self.real.loads(s, **kw)

    def dumps(self, o, **kw):
        self.dumped.append(o)
        return b'@obj%d' % (len(self.dumped) - 1)

    def obj(self, token):
        if isinstance(token, bytes) and token.startswith(b'@obj'):
            return self.dumped[int(token[4:])]
        return self.real.loads(token)
