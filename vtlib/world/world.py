"""World: installs the stubs of vtlib.world.core into the imported circus modules, boots a REAL
Arbiter / Controller / Watcher on them, and lets a harness drive the event loop turn by turn."""
import asyncio
import asyncio.events as _aevents
import logging
import signal as _signal
import types

from vtlib.world import core
from vtlib.world.core import Beh, Diverged, BlockedLoop, DAEMON_PID  # noqa: F401


class _Proxy(object):
    def __init__(self, real, **over):
        self.__dict__['_real'] = real
        self.__dict__.update(over)

    def __getattr__(self, n):
        return getattr(self.__dict__['_real'], n)


class Request(object):
    def __init__(self, world, mid, msg):
        self.world = world
        self.mid = mid
        self.msg = msg
        self.t_sent = world.clock.now
        self.turn_sent = world.turns
        self.replies = []           # reply objects carrying this id
        self.t_reply = None
        self.turn_reply = None

    @property
    def reply(self):
        return self.replies[0] if self.replies else None

    @property
    def status(self):
        return self.replies[0].get('status') if self.replies else None


class World(object):
    def __init__(self, capture_json=True, t0=1000.0):
        self.clock = core.Clock(t0)
        self.kernel = core.Kernel(self.clock)
        self.capture_json = capture_json
        self.json = core.JsonCapture()
        self.context = core.FakeContext(self)
        self.streams = []
        self.frames = []            # (stream, msg)
        self.replies = []           # (cid, obj)
        self.events = []            # (t, topic, obj)
        self.loop_exceptions = []
        self.select_ready_events = 0
        self.idle = False
        self.turns = 0
        self.max_turns = 20000
        self.max_time = 3600.0
        self._patches = []
        self._installed = False
        self.vloop = None
        self.ioloop = None
        self.arbiter = None
        self.requests = {}
        self._mid = 0
        self._pending_cid = None
        self.randint_value = 0
        self.os_signals = []          # (virtual time, handler): process signals delivered while the loop sleeps in select()
        self.woken = False
        self.select_result = []
        self.t0 = t0
        self._old_loop = None
        self.raw_frames = []

    # ------------------------------------------------------------------ patching
    def _patch(self, obj, name, value):
        missing = object()
        old = obj.__dict__.get(name, missing) if isinstance(obj, type) or isinstance(obj, types.ModuleType) \
            else getattr(obj, name, missing)
        self._patches.append((obj, name, old, missing))
        setattr(obj, name, value)

    def install(self):
        import circus
        import circus.process
        import circus.watcher
        import circus.arbiter
        import circus.controller
        import circus.sighandler
        import circus.util
        import circus.commands.base
        import circus.stream.redirector
        import tornado.ioloop
        k = self.kernel
        tm = self.clock.as_module()
        self._patch(circus.process, 'Popen', lambda *a, **kw: core.FakePopen(k, *a, **kw))
        for mod in (circus.process, circus.watcher, circus.arbiter, circus.commands.base, circus.util,
                    tornado.ioloop):
            self._patch(mod, 'time', tm)
        fos = core.FakeOS(k)
        self.fos = fos
        for mod in (circus.watcher, circus.arbiter, circus.stream.redirector):
            self._patch(mod, 'os', fos)
        self._patch(circus.controller, 'zmqstream', types.SimpleNamespace(ZMQStream=core.FakeStream))
        if self.capture_json:
            self._patch(circus.controller, 'json', self.json)
            self._patch(circus.watcher, 'json', self.json)
        else:
            self._patch(circus.watcher, 'json', self.json)
        self._patch(circus.sighandler, 'signal', _Proxy(_signal, signal=lambda s, h: None,
                                                        getsignal=lambda s: None,
                                                        siginterrupt=lambda s, f: None))
        import socket as _socket
        self._patch(circus.arbiter, 'socket', _Proxy(_socket, getfqdn=lambda: 'host.test'))
        self._patch(circus.arbiter, '_setproctitle', lambda t: None)
        import zmq as _zmq
        ctx = self.context
        self._patch(circus.arbiter, 'zmq', _Proxy(_zmq, Context=types.SimpleNamespace(instance=lambda: ctx)))
        def _select(r, w_, x, t=None):
            ready = list(self.select_result)
            if not ready and (t is None or t > 0):
                # select() in the loop thread with nothing ready WAITS: for ever without a timeout
                self.clock.sleep(self.clock.watchdog + 1.0 if t is None else t)
            return (ready, [], [])
        self._patch(circus.arbiter, 'select', types.SimpleNamespace(select=_select))
        self._patch(circus.watcher, 'randint', lambda a, b: min(max(self.randint_value, a), b))
        # tag every spawn with the watcher it is made for (instrumentation around the real method)
        real_spawn = circus.process.Process.spawn

        def spawn(proc):
            k.current_tag = proc.watcher.name if proc.watcher is not None else proc.name
            try:
                return real_spawn(proc)
            finally:
                k.current_tag = None
        self._patch(circus.process.Process, 'spawn', spawn)
        self._old_disabled = circus.logger.disabled
        circus.logger.disabled = True
        # no log record is ever formatted (formatting is never the subject; under CrossHair `msg % args`
        # deep-copies its arguments -- e.g. a bound method of the arbiter -- which would clone the world)
        self._old_logging_disable = logging.root.manager.disable
        logging.disable(logging.CRITICAL)
        # copying an IOLoop would construct (and make current) a brand-new event loop: never copy loops
        from tornado.platform.asyncio import AsyncIOLoop
        self._patch(AsyncIOLoop, '__deepcopy__', lambda self_, memo: self_)
        self._patch(AsyncIOLoop, '__copy__', lambda self_: self_)
        self._installed = True
        return self

    def uninstall(self):
        import circus
        for obj, name, old, missing in reversed(self._patches):
            if old is missing:
                try:
                    delattr(obj, name)
                except AttributeError:
                    pass
            else:
                setattr(obj, name, old)
        self._patches = []
        if self._installed:
            circus.logger.disabled = self._old_disabled
            logging.disable(self._old_logging_disable)
        self._installed = False

    # ------------------------------------------------------------------ loop
    def make_loop(self):
        from tornado.platform.asyncio import AsyncIOLoop
        try:
            self._old_loop = asyncio.get_event_loop_policy()._local._loop
        except Exception:
            self._old_loop = None
        self.vloop = core.VLoop(self)
        self.ioloop = AsyncIOLoop(asyncio_loop=self.vloop, make_current=False)
        asyncio.set_event_loop(self.vloop)
        return self.ioloop

    def close(self):
        try:
            # the controller opens a REAL udp socket (auto-discovery); do not leak one descriptor per world
            udp = getattr(getattr(self.arbiter, 'ctrl', None), 'udp_socket', None) if getattr(self, 'arbiter', None) is not None else None
            if udp is not None:
                try:
                    udp.close()
                except Exception:  # noqa
                    pass
            if self.ioloop is not None:
                try:
                    self.ioloop.close()
                except Exception:
                    pass
            asyncio.set_event_loop(self._old_loop)
        finally:
            self.uninstall()

    def __enter__(self):
        self.install()
        self.make_loop()
        return self

    def __exit__(self, *a):
        self.close()
        return False

    def turn(self):
        """one iteration of the event loop (timers due, ready callbacks)"""
        self.turns += 1
        if self.turns > self.max_turns:
            raise Diverged('more than %d loop turns' % self.max_turns)
        if self.clock.now - self.t0 > self.max_time:
            raise Diverged('more than %.0f s of virtual time' % self.max_time)
        self.clock.new_callback()
        self.idle = False
        _aevents._set_running_loop(self.vloop)
        try:
            self.vloop._run_once()
        finally:
            _aevents._set_running_loop(None)

    def run_until(self, pred, max_time=600.0, max_turns=4000):
        """turn the loop until pred() holds; False if the budget ran out or the loop went idle"""
        t_end = self.clock.now + max_time
        n = 0
        while not pred():
            if self.clock.now > t_end or n >= max_turns:
                return False
            self.turn()
            n += 1
            if self.idle and not pred():
                return False
        return True

    def run_for(self, dt):
        """let dt seconds of virtual time pass (all timers due in between fire)"""
        done = []
        self.vloop.call_later(dt, lambda: done.append(1))
        return self.run_until(lambda: bool(done), max_time=dt + 1.0, max_turns=100000)

    def turns_n(self, n):
        for _ in range(n):
            self.turn()

    def run_future(self, fut, max_time=600.0):
        ok = self.run_until(fut.done, max_time=max_time)
        return ok

    # ------------------------------------------------------------------ boot
    def mk_watcher(self, name, numprocesses=1, cmd='prog', **kw):
        from circus.watcher import Watcher
        kw.setdefault('graceful_timeout', 0.5)
        return Watcher(name, cmd, numprocesses=numprocesses, loop=self.ioloop, **kw)

    def mk_arbiter(self, watchers, check_delay=1.0, warmup_delay=0, **kw):
        from circus.arbiter import Arbiter
        self.arbiter = Arbiter(watchers, 'tcp://127.0.0.1:5555', 'tcp://127.0.0.1:5556',
                               check_delay=check_delay, context=self.context, loop=self.ioloop,
                               warmup_delay=warmup_delay, **kw)
        return self.arbiter

    def boot_from_config(self, path, wait=True):
        """the real Arbiter.load_from_config on a real ini file"""
        from circus.arbiter import Arbiter
        self.arbiter = arb = Arbiter.load_from_config(path, loop=self.ioloop)
        self.start_future = arb.start()
        if wait:
            if not self.run_future(self.start_future, max_time=120.0):
                raise Diverged('arbiter.start did not complete')
            self.start_future.result()
        return arb

    def boot(self, watchers, check_delay=1.0, warmup_delay=0, wait=True, **kw):
        arb = self.mk_arbiter(watchers, check_delay, warmup_delay, **kw)
        self.start_future = arb.start()
        if wait:
            if not self.run_future(self.start_future, max_time=120.0):
                raise Diverged('arbiter.start did not complete')
            self.start_future.result()
        return arb

    # ------------------------------------------------------------------ zmq callbacks
    def on_frame(self, stream, msg):
        self.raw_frames.append(msg)
        if self._pending_cid is None:
            self._pending_cid = (msg,)
            return
        cid = self._pending_cid[0]
        self._pending_cid = None
        try:
            obj = self.json.obj(msg) if self.capture_json else self.json.real.loads(msg)
        except Exception as e:  # noqa
            obj = {'__undecodable__': repr(msg), 'error': repr(e)}
        self.replies.append((cid, obj))
        mid = obj.get('id') if isinstance(obj, dict) else None
        try:
            req = self.requests.get(mid)
        except TypeError:
            req = None
        if req is not None:
            req.replies.append(obj)
            if req.t_reply is None:
                req.t_reply = self.clock.now
                req.turn_reply = self.turns

    def on_publish(self, parts):
        topic = parts[0].decode() if isinstance(parts[0], bytes) else str(parts[0])
        try:
            obj = self.json.obj(parts[1])
        except Exception:  # noqa
            obj = parts[1]
        self.events.append((self.clock.now, topic, obj))

    # ------------------------------------------------------------------ requests
    def send(self, command, cid=b'client1', mid=None, msg_type=None, raw=None, **props):
        """deliver one control message to the real Controller.handle_message"""
        self._mid += 1
        if mid is None:
            mid = 'm%d' % self._mid
        msg = {'id': mid, 'command': command, 'properties': props}
        if msg_type is not None:
            msg['msg_type'] = msg_type
        req = Request(self, mid, msg)
        self.requests[mid] = req
        if raw is not None:
            payload = raw
        elif self.capture_json:
            payload = self.json.register(msg)
        else:
            payload = self.json.real.dumps(msg)
        self.arbiter.ctrl.handle_message([cid, payload])
        return req

    def send_obj(self, obj, cid=b'client1'):
        payload = self.json.register(obj) if self.capture_json else self.json.real.dumps(obj)
        n0 = len(self.replies)
        self.arbiter.ctrl.handle_message([cid, payload])
        return n0

    def call(self, command, max_time=600.0, **props):
        """send and turn the loop until the reply arrives"""
        req = self.send(command, **props)
        self.run_until(lambda: bool(req.replies), max_time=max_time)
        return req

    def check_now(self, max_time=600.0):
        """run one periodic check (the real Arbiter.manage_watchers) to completion"""
        fut = self.arbiter.manage_watchers()
        self.run_future(fut, max_time=max_time)
        return fut

    def quiesce(self, max_time=600.0):
        """turn until no exclusive operation holds the slot"""
        return self.run_until(lambda: self.arbiter._exclusive_running_command is None,
                              max_time=max_time)

    # ------------------------------------------------------------------ event helpers
    def events_of(self, kind):
        return [(t, topic, o) for (t, topic, o) in self.events if topic.endswith('.' + kind)]
