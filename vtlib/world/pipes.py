"""Fake pipes for captured worker output (stub; no circus logic).

Contract assumed (POSIX): descriptor numbers are allocated lowest-free-first and are reused after close; a read
returns at most n bytes, in order; it returns b'' (EOF) once the buffer is empty and every holder of the write
end has exited or closed it; reading an empty pipe whose write end is still open BLOCKS (worker pipes are
blocking) -- in this world that raises BlockedLoop, because a blocked read in the loop thread is a frozen daemon.
"""
from vtlib.world.core import BlockedLoop

FIRST_FD = 1000          # far above the real descriptors of the process (real sockets of the daemon share the loop with the fake pipes)


class FakePipeFile(object):
    """the read end as subprocess.Popen exposes it (proc.stdout / proc.stderr)"""

    def __init__(self, table, fd):
        self._table = table
        self._fd = fd
        self.closed = False

    def fileno(self):
        if self.closed:
            raise ValueError('I/O operation on closed file')
        return self._fd

    def close(self):
        if not self.closed:
            self.closed = True
            self._table.reader_closed(self._fd)


class Pipe(object):
    def __init__(self, fd, owner_pid, name, holders):
        self.fd = fd
        self.owner_pid = owner_pid
        self.name = name
        self.holders = set(holders)       # pids that hold the write end
        self.buf = bytearray()
        self.written = bytearray()        # everything ever written (ground truth)
        self.eof_delivered = False


class PipeTable(object):
    def __init__(self, kernel):
        self.kernel = kernel
        self.open = {}                    # fd -> Pipe (read end open in the daemon)
        self.history = []                 # every Pipe ever created
        self.blocked_reads = 0
        self.reads = []                   # (fd, n, len(result))

    def _alloc(self):
        fd = FIRST_FD
        while fd in self.open:
            fd += 1
        return fd

    def new_pipe(self, kproc, name):
        fd = self._alloc()
        holders = [kproc.pid] + [c.pid for c in self.kernel.children_of(kproc.pid, True)]
        p = Pipe(fd, kproc.pid, name, holders)
        self.open[fd] = p
        self.history.append(p)
        return FakePipeFile(self, fd)

    def late_holders(self, kproc):
        """children forked after the pipes were created inherit the write ends"""
        for p in self.open.values():
            if p.owner_pid == kproc.pid:
                p.holders.update(c.pid for c in self.kernel.children_of(kproc.pid, True))

    def write(self, pid, name, data):
        for p in self.open.values():
            if p.owner_pid == pid and p.name == name and pid in p.holders:
                p.buf.extend(data)
                p.written.extend(data)
                return True
        for p in self.history:
            if p.owner_pid == pid and p.name == name and p.fd not in self.open:
                return False              # read end already closed by the daemon: EPIPE for the worker
        return False

    def close_write_end(self, pid, name):
        for p in self.open.values():
            if p.owner_pid == pid and p.name == name:
                p.holders.discard(pid)

    def writer_closed(self, kproc):
        for p in self.history:
            p.holders.discard(kproc.pid)

    def reader_closed(self, fd):
        self.open.pop(fd, None)

    def readable(self, fd):
        p = self.open.get(fd)
        if p is None:
            return False
        return bool(p.buf) or not p.holders

    def read(self, fd, n):
        p = self.open.get(fd)
        if p is None:
            raise OSError(9, 'Bad file descriptor')
        if not p.buf:
            if p.holders:
                self.blocked_reads += 1
                self.reads.append((fd, n, None))
                self.kernel.clock.tripped = True         # the loop thread is stuck in read(2): nothing else is served
                raise BlockedLoop('os.read on an empty pipe (fd %d) whose writer is still alive: the loop thread blocks' % fd)
            p.eof_delivered = True
            self.reads.append((fd, n, 0))
            return b''
        out = bytes(p.buf[:n])
        del p.buf[:n]
        self.reads.append((fd, n, len(out)))
        return out
