"""A fake file system for circus.stream.file_stream (stub: no circus logic).

Files are lists of chunks ``(write_index, text)``; the text objects are kept as they were
written (possibly symbolic ``str``) and never concatenated, so that the *length* of a payload
stays a solver variable (DESIGN.md section 1.7).  Contract assumed: POSIX append semantics,
``rename`` replaces atomically, ``remove`` of a missing file raises ``FileNotFoundError``.
"""
import os as _real_os


class FakeFile(object):
    def __init__(self, fs, name):
        self.fs = fs
        self.name = name
        self.closed = False

    def _chunks(self):
        return self.fs.files[self.name]

    def seek(self, off, whence=0):
        return 0

    def tell(self):
        if self.closed:
            raise ValueError('I/O operation on closed file')
        # 'a+' files are positioned at the end after seek(0, 2) / after a write
        n = 0
        for _idx, s in self.fs.files.get(self.name, []):
            n = n + len(s)
        return n

    def write(self, s):
        if self.closed:
            raise ValueError('I/O operation on closed file')
        if self.name not in self.fs.files:
            # the path was renamed/removed under an open handle: POSIX keeps writing to the
            # old inode, which is no longer reachable by this name.
            self.fs.lost.append((self.fs.windex, s))
        else:
            self.fs.files[self.name].append((self.fs.windex, s))
        self.fs.windex += 1
        return len(s)

    def flush(self):
        pass

    def close(self):
        self.closed = True

    def fileno(self):
        return 99


class FakePath(object):
    def __init__(self, fs):
        self.fs = fs

    def exists(self, p):
        return p in self.fs.files

    def __getattr__(self, n):
        return getattr(_real_os.path, n)


class FakeFS(object):
    def __init__(self):
        self.files = {}
        self.lost = []
        self.windex = 0
        self.path = FakePath(self)
        self.ops = []

    # -- builtins.open replacement
    def open(self, name, mode='r'):
        if 'a' in mode or 'w' in mode:
            if name not in self.files or 'w' in mode:
                self.files[name] = []
        elif name not in self.files:
            raise FileNotFoundError(name)
        return FakeFile(self, name)

    # -- os replacement (only what file_stream uses)
    def remove(self, p):
        self.ops.append(('remove', p))
        if p not in self.files:
            raise FileNotFoundError(p)
        del self.files[p]

    def rename(self, a, b):
        self.ops.append(('rename', a, b))
        if a not in self.files:
            raise FileNotFoundError(a)
        self.files[b] = self.files.pop(a)

    def close(self, fd):
        pass

    def __getattr__(self, n):
        return getattr(_real_os, n)

    def size(self, name):
        n = 0
        for _i, s in self.files[name]:
            n = n + len(s)
        return n


def install(fs):
    """Make circus.stream.file_stream use ``fs``; returns an undo callable."""
    import circus.stream.file_stream as m
    old = (m.__dict__.get('open'), m.os)
    m.open = fs.open
    m.os = fs

    def undo():
        if old[0] is None:
            m.__dict__.pop('open', None)
        else:
            m.open = old[0]
        m.os = old[1]
    return undo
