"""A fake file system for circus.stream.file_stream (stub: no circus logic).

Files are lists of chunks ``(write_index, text)``; the text objects are kept as they were
written (possibly symbolic ``str``) and never concatenated, so that the *length* of a payload
stays a solver variable (DESIGN.md section 1.7).  Contract assumed: POSIX append semantics,
``rename`` replaces atomically, ``remove`` of a missing file raises ``FileNotFoundError``.
"""
import os as _real_os


class FakeFile(object):
    def __init__(self, fs, name):
        self.fs = fs
        self.name = name
        self.closed = False

    def _chunks(self):
        return self.fs.files[self.name]

    def seek(self, off, whence=0):
        return 0

    def tell(self):
        if self.closed:
            raise ValueError('I/O operation on closed file')
        # 'a+' files are positioned at the end after seek(0, 2) / after a write
        n = 0
        for _idx, s in self.fs.files.get(self.name, []):
            n = n + self.fs.width(s)
        return n

    def write(self, s):
        if self.closed:
            raise ValueError('I/O operation on closed file')
        if self.name not in self.fs.files:
            # the path was renamed/removed under an open handle: POSIX keeps writing to the
            # old inode, which is no longer reachable by this name.
            self.fs.lost.append((self.fs.windex, s))
        else:
            self.fs.files[self.name].append((self.fs.windex, s))
        self.fs.windex += 1
        return len(s)

    def flush(self):
        pass

    def close(self):
        self.closed = True

    def fileno(self):
        return 99


class FakePath(object):
    def __init__(self, fs):
        self.fs = fs

    def exists(self, p):
        return p in self.fs.files

    def getsize(self, p):
        if p not in self.fs.files:
            raise FileNotFoundError(p)
        return self.fs.size(p)

    def __getattr__(self, n):
        return getattr(_real_os.path, n)


class FakeFS(object):
    def __init__(self):
        self.files = {}
        self.lost = []
        self.windex = 0
        self.byte_sizes = False
        self.path = FakePath(self)
        self.ops = []

    # -- builtins.open replacement
    def open(self, name, mode='r'):
        if 'a' in mode or 'w' in mode:
            if name not in self.files or 'w' in mode:
                self.files[name] = []
        elif name not in self.files:
            raise FileNotFoundError(name)
        return FakeFile(self, name)

    # -- os replacement (only what file_stream uses)
    def remove(self, p):
        self.ops.append(('remove', p))
        if p not in self.files:
            raise FileNotFoundError(p)
        del self.files[p]

    def rename(self, a, b):
        self.ops.append(('rename', a, b))
        if a not in self.files:
            raise FileNotFoundError(a)
        self.files[b] = self.files.pop(a)

    def close(self, fd):
        pass

    def listdir(self, d='.'):
        self.ops.append(('listdir', d))
        d = _real_os.path.normpath(d or '.')
        return sorted(_real_os.path.basename(n) for n in self.files if _real_os.path.normpath(_real_os.path.dirname(n) or '.') == d)

    def __getattr__(self, n):
        return getattr(_real_os, n)

    def width(self, s):
        """what a chunk of text adds to the file size: characters (ASCII assumption) or UTF-8 bytes (byte_sizes, concrete text only)"""
        return len(s.encode('utf-8')) if self.byte_sizes else len(s)

    def size(self, name):
        n = 0
        for _i, s in self.files[name]:
            n = n + self.width(s)
        return n


def install(fs):
    """Make circus.stream.file_stream use ``fs``; returns an undo callable."""
    import circus.stream.file_stream as m
    old = (m.__dict__.get('open'), m.os, m.__dict__.get('to_bytes'))
    m.open = fs.open
    m.os = fs
    if old[2] is not None:
        # text -> bytes for size accounting: the real function when sizes are counted in bytes (concrete text); for symbolic
        # ASCII payloads (sizes in characters) the identity, so that the LENGTH stays a solver variable
        m.to_bytes = lambda s_: old[2](s_) if fs.byte_sizes else s_

    def undo():
        if old[0] is None:
            m.__dict__.pop('open', None)
        else:
            m.open = old[0]
        m.os = old[1]
        if old[2] is not None:
            m.to_bytes = old[2]
    return undo
