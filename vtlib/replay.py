"""Concrete replay of one harness call on the plain interpreter (no CrossHair).

Used (a) by the driver to confirm every solver counterexample against the real code before
anything is reported, (b) for the known-finding witnesses, (c) for smoke runs that measure
which circus functions a harness really enters, (d) by ``./vt replay <file>``.
"""
import argparse
import ast
import importlib
import json
import os
import sys
import traceback


def decode_args(args_repr):
    return {k: ast.literal_eval(v) for k, v in args_repr.items()}


def run_concrete(module, fn, shard, args_repr, canary=None, trace=False):
    """-> dict(ok, exception, notes, functions)"""
    os.environ['CIRCUS_VERIF'] = '1'
    from vtlib import chrun
    chrun.preimport()
    from vtlib import rt
    rt.S.clear()
    rt.S.update(shard)
    rt.TWIN = False
    rt.reset()
    mod = importlib.import_module(module)
    if canary:
        mod.CANARIES[canary]['apply']()
    f = getattr(mod, fn)
    args = decode_args(args_repr)
    entered = set()
    repo_prefix = os.path.realpath('/repo/circus') + os.sep

    def prof(frame, event, arg):
        if event == 'call':
            co = frame.f_code
            fnm = co.co_filename
            if fnm.startswith(repo_prefix):
                entered.add('%s:%s' % (fnm[len(repo_prefix):], co.co_qualname))
    res = {'ok': None, 'exception': None}
    if trace:
        sys.setprofile(prof)
    try:
        ok = f(**args)
        res['ok'] = bool(ok)
    except Exception as e:
        res['ok'] = False
        res['exception'] = ''.join(traceback.format_exception(type(e), e, e.__traceback__))[-4000:]
    finally:
        if trace:
            sys.setprofile(None)
    res['notes'] = list(rt.NOTES)
    res['verdicts'] = rt.COUNT['verdicts']
    res['skips'] = rt.COUNT['skips']
    res['functions'] = sorted(entered)
    return res


def main(argv=None):
    ap = argparse.ArgumentParser()
    ap.add_argument('--module', required=True)
    ap.add_argument('--fn', required=True)
    ap.add_argument('--shard', default='{}')
    ap.add_argument('--args', required=True, help='JSON dict name -> repr(value)')
    ap.add_argument('--canary', default=None)
    ap.add_argument('--trace', action='store_true')
    ap.add_argument('--out', required=True)
    a = ap.parse_args(argv)
    try:
        res = run_concrete(a.module, a.fn, json.loads(a.shard), json.loads(a.args), a.canary,
                           a.trace)
        res['status'] = 'done'
    except BaseException as e:  # noqa
        res = {'status': 'error',
               'error': ''.join(traceback.format_exception(type(e), e, e.__traceback__))[-4000:]}
    with open(a.out, 'w') as f:
        json.dump(res, f)
    return 0


if __name__ == '__main__':
    sys.exit(main())
