"""C15 -- the watcher directory stays coherent; names are unique ignoring case.

Real code under the solver: Arbiter.add_watcher / rm_watcher / get_watcher / statuses / numwatchers /
reload_from_config, the add / rm / list / numwatchers / status / stats / start / stop commands,
Command._get_watcher.  World: vtlib.world.
"""
from vtlib import rt
from vtlib.driver import Cond
from vtlib.harness import scen
from vtlib.harness.scen import World, Beh
from vtlib.harness import c12

PROPERTY = 'C15'
TITLE = 'The watcher directory stays coherent; names are unique ignoring case'
FUNCTIONS = ['circus/arbiter.py:Arbiter.add_watcher', 'circus/arbiter.py:Arbiter.rm_watcher', 'circus/arbiter.py:Arbiter.get_watcher',
             'circus/arbiter.py:Arbiter.statuses', 'circus/arbiter.py:Arbiter.numwatchers', 'circus/arbiter.py:Arbiter.reload_from_config',
             'circus/commands/addwatcher.py:AddWatcher.execute', 'circus/commands/rmwatcher.py:RmWatcher.execute',
             'circus/commands/list.py:List.execute', 'circus/commands/base.py:Command._get_watcher']
ASSUMPTIONS = ['simulated kernel / clock / zmq as in C01', 'name pool: a, A, b, B, "", "a b", a-umlaut (upper and lower)']
EXPLANATION = ('C15: K<=3 events (thorough 4) from {add, add+start, rm, rm nostop, start, stop} over a name pool with case variants, the empty '
               'name and unusual names; after every reply list / status / stats / numwatchers must describe the same set, case variants must '
               'reach the same watcher, removed watchers must be gone (workers dead unless nostop) and re-addable. reloadconfig sequences: c15_reload. ')

NAMES = ('a', 'A', 'b', '', 'B', 'a b', 'ä', 'Ä')
OPS = ('add', 'rm', 'rm_nostop', 'add_start', 'start', 'stop')


def coherent(w):
    ls = w.call('list').reply
    st = w.call('status').reply
    ss = w.call('stats').reply
    nw = w.call('numwatchers').reply
    ok = True
    listed = ls.get('watchers')
    statuses = st.get('statuses')
    infos = ss.get('infos')
    if listed is None or statuses is None or infos is None:
        rt.note('directory queries failed: %r %r %r', ls, st, ss)
        return False
    l1 = sorted(listed)
    l2 = sorted(n.lower() for n in statuses)
    l3 = sorted(n.lower() for n in infos)
    if not (l1 == l2 == l3):
        rt.note('list=%r status=%r stats=%r', l1, sorted(statuses), sorted(infos))
        ok = False
    if len(set(l2)) != len(l2):
        rt.note('names not unique ignoring case: %r', sorted(statuses))
        ok = False
    if nw.get('numwatchers') != len(l1):
        rt.note('numwatchers=%r but %d listed (%r)', nw.get('numwatchers'), len(l1), l1)
        ok = False
    arb = w.arbiter
    if len(arb.watchers) != len(arb._watchers_names) or \
            sorted(x.name.lower() for x in arb.watchers) != sorted(arb._watchers_names):
        rt.note('watcher list %r vs name index %r', [x.name for x in arb.watchers], sorted(arb._watchers_names))
        ok = False
    # any letter case reaches the same watcher
    for n in statuses:
        for variant in (n.upper(), n.lower(), n.swapcase()):
            r = w.call('status', name=variant).reply
            if r.get('status') != statuses[n]:
                rt.note('status of %r via %r: %r (expected %r)', n, variant, r, statuses[n])
                ok = False
    return ok


def c15_directory(o1: int, n1: int, o2: int, n2: int, o3: int, n3: int, o4: int, n4: int) -> bool:
    """
    pre: 0 <= o1 < len(OPS) and 0 <= o2 < rt.S.get('nops', len(OPS)) and 0 <= o3 < rt.S.get('nops', len(OPS)) and 0 <= o4 < rt.S.get('nops', len(OPS))
    pre: 0 <= n1 < rt.S.get('nnames', len(NAMES)) and 0 <= n2 < rt.S.get('nnames', len(NAMES))
    pre: 0 <= n3 < rt.S.get('nnames', len(NAMES)) and 0 <= n4 < rt.S.get('nnames', len(NAMES))
    pre: o1 == rt.S['o1']
    pre: rt.S.get('K', 3) >= 4 or (o4 == 0 and n4 == 0)
    pre: rt.S.get('K', 3) >= 3 or (o3 == 0 and n3 == 0)
    post: _
    """
    S = rt.S
    K = S.get('K', 3)
    steps = [(rt.pick(o, len(OPS)), rt.pick(n, len(NAMES))) for o, n in ((o1, n1), (o2, n2), (o3, n3), (o4, n4))][:K]
    with World() as w:
        k = w.kernel
        k.behaviour = lambda i, argv: Beh(obey=0.0)
        wa = w.mk_watcher('a', numprocesses=1, graceful_timeout=0.2)
        w.boot([wa], check_delay=-1)
        ok = True
        try:
            for (o, n) in steps:
                op = OPS[o]
                name = NAMES[n]
                before = dict((x.name.lower(), x) for x in w.arbiter.watchers)
                if op in ('add', 'add_start'):
                    r = w.call('add', name=name, cmd='prog', start=(op == 'add_start'), waiting=True, max_time=10.0)
                    w.quiesce()
                    if r.status == 'ok':
                        lst = w.call('list').reply.get('watchers', [])
                        if name.lower() not in lst:
                            rt.note('add %r answered ok but the watcher is not listed (%r)', name, lst)
                            ok = False
                    elif name.lower() not in before and name != '':
                        rt.note('add of the free name %r refused: %r', name, r.reply)
                        ok = False
                elif op in ('rm', 'rm_nostop'):
                    victim = before.get(name.lower())
                    pids = sorted(victim.processes) if victim is not None else []
                    r = w.call('rm', name=name, nostop=(op == 'rm_nostop'), waiting=True, max_time=10.0)
                    w.quiesce()
                    if victim is not None:
                        if r.status != 'ok':
                            rt.note('rm %r of an existing watcher refused: %r', name, r.reply)
                            ok = False
                        else:
                            alive = [p for p in pids if k.procs[p].state == 'alive']
                            if op == 'rm' and alive:
                                rt.note('rm %r left its workers alive: %r', name, alive)
                                ok = False
                            if op == 'rm_nostop' and pids and not alive:
                                rt.note('rm nostop %r stopped the workers', name)
                                ok = False
                            if name.lower() in w.call('list').reply.get('watchers', []):
                                rt.note('removed watcher %r still listed', name)
                                ok = False
                            # the name can be reused
                            r2 = w.call('add', name=name, cmd='prog', max_time=10.0)
                            if r2.status != 'ok':
                                rt.note('removed name %r cannot be re-added: %r', name, r2.reply)
                                ok = False
                            else:
                                w.call('rm', name=name, waiting=True, max_time=10.0)
                else:
                    r = w.call(op, name=name, waiting=True, match='simple', max_time=10.0)
                    w.quiesce()
                if not coherent(w):
                    rt.note('after %s %r', op, name)
                    ok = False
                    break
            return rt.verdict(ok)
        except (scen.Diverged, scen.BlockedLoop):
            return rt.skip()


def c15_reload(e1: int, e2: int, e3: int) -> bool:
    """
    Directory coherence across reloadconfig sequences (the C12 scenario with the C15 oracle switched on).

    pre: e1 == rt.S['e1'] and 0 <= e2 < len(c12.EDITS) and 0 <= e3 < len(c12.EDITS)
    pre: rt.S.get('K', 2) >= 3 or e3 == 0
    post: _
    """
    rt.S['directory'] = True
    return c12.c12_reload(e1, e2, e3)


def _canary_rm_case():
    """rm drops the watcher from the list by case-sensitive name"""
    import circus.arbiter as ca
    from tornado import gen
    from circus.util import synchronized

    @synchronized("arbiter_rm_watcher")
    @gen.coroutine
    def rm_watcher(self, name, nostop=False):
        watcher = self._watchers_names.pop(name.lower())
        watcher.notify_event("remove", {"time": ca.time.time()})
        self.watchers[:] = [x for x in self.watchers if x.name != name]
        if not nostop:
            yield watcher._stop()
    ca.Arbiter.rm_watcher = rm_watcher


def _canary_add_case():
    """add checks for duplicates case-sensitively"""
    import circus.arbiter as ca
    from circus.util import synchronized
    from circus.exc import AlreadyExist
    from circus.watcher import Watcher

    @synchronized("arbiter_add_watcher")
    def add_watcher(self, name, cmd, **kw):
        if name in [x.name for x in self.watchers]:
            raise AlreadyExist("%r already exist" % name)
        if not name:
            raise ValueError("command name shouldn't be empty")
        watcher = Watcher(name, cmd, **kw)
        if self.evpub_socket is not None:
            watcher.initialize(self.evpub_socket, self.sockets, self)
        self.watchers.append(watcher)
        self._watchers_names[watcher.name.lower()] = watcher
        return watcher
    ca.Arbiter.add_watcher = add_watcher


CANARIES = {
    'rm_by_exact_name': {'apply': _canary_rm_case, 'conds': ['c15_directory'], 'shards': [{'o1': 1, 'K': 2}],
                         'what': 'rm removes the list entry only when the request spells the name exactly'},
    'add_duplicate_check_case_sensitive': {'apply': _canary_add_case, 'conds': ['c15_directory'], 'shards': [{'o1': 0, 'K': 2}],
                                           'what': 'add accepts a name that differs only in letter case'},
}

KNOWN = []


def plan(tier):
    q = tier == 'quick'
    sh = [{'o1': o, 'K': 2 if q else 3} for o in range(len(OPS))]
    if q:
        sh += [{'o1': o, 'K': 3, 'nops': 3, 'nnames': 4} for o in (0, 1, 2)]
    else:
        sh += [{'o1': o, 'K': 4, 'nops': 3, 'nnames': 4} for o in (0, 1, 2)]
    rsh = [{'e1': i, 'K': 2 if q else 3} for i in range(len(c12.EDITS))]
    return [
        Cond('c15_reload', shards=rsh, budget=240 if q else 1800, twins=1,
             bounds={'e1': 'S: shard key over %r' % (c12.EDITS,), 'e2,e3': 'S: same menu', 'K': 'S{2} (thorough 3)'}),
        Cond('c15_directory', shards=sh, budget=240 if q else 2400, twins=2,
             bounds={'o_i': 'S%r' % (OPS,), 'n_i': 'S: name pool %r' % (NAMES,), 'K': 'S{2,3} (thorough 3,4)'}),
    ]
