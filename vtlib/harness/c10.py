"""C10 -- state-changing operations are serialized; the exclusive slot is always freed.

Real code under the solver: util.synchronized / _synchronized_cb, every @synchronized method of Watcher and
Arbiter reached through Controller.dispatch and the real commands.  World: vtlib.world.
"""
from vtlib import rt
from vtlib.driver import Cond
from vtlib.harness import scen
from vtlib.harness.scen import World, Beh, Sched
from vtlib.world import core

PROPERTY = 'C10'
TITLE = 'State-changing operations are serialized; the exclusive slot is always freed'
FUNCTIONS = ['circus/util.py:synchronized', 'circus/util.py:_synchronized_cb', 'circus/controller.py:Controller.dispatch',
             'circus/watcher.py:Watcher.start', 'circus/watcher.py:Watcher.stop', 'circus/watcher.py:Watcher.restart',
             'circus/watcher.py:Watcher.reload', 'circus/watcher.py:Watcher.incr', 'circus/watcher.py:Watcher.decr',
             'circus/watcher.py:Watcher.set_opt', 'circus/watcher.py:Watcher.do_action', 'circus/arbiter.py:Arbiter.add_watcher',
             'circus/arbiter.py:Arbiter.rm_watcher', 'circus/arbiter.py:Arbiter.manage_watchers', 'circus/arbiter.py:Arbiter.stop_watchers',
             'circus/arbiter.py:Arbiter.start_watchers', 'circus/arbiter.py:Arbiter.restart', 'circus/arbiter.py:Arbiter.reload']
ASSUMPTIONS = [
    'simulated kernel / clock / zmq as in C01; operations are kept in flight by a 0.3 s warm-up delay and by workers that take 0.15 s to obey',
    'asynchronous failure = an unexpected exception (RuntimeError) raised by the n-th spawn after the operation has already suspended',
    'daemon self-restart (`restart` without a name inside circusd) is outside this harness',
]
EXPLANATION = ('C10: a first state-changing request (every command + the periodic check) with fate {succeeds, raises synchronously, fails '
               'asynchronously}; a second and a third one issued after g loop turns of the first; refused ones must change nothing and must not '
               'free the slot; when the first ends the slot is free and an incr/decr probe pair is accepted. ')

FIRST = ('start_all', 'stop_all', 'restart_all', 'reload_all', 'start', 'stop', 'restart', 'reload', 'reload_seq', 'incr', 'decr',
         'set', 'set_opt', 'add', 'add_start', 'rm', 'check', 'kill', 'reload_term', 'reload_all_term')
SECOND = ('incr', 'decr', 'set', 'stop', 'start', 'restart', 'reload', 'add', 'rm', 'check', 'stop_all', 'quit_probe')
FATES = ('ok', 'sync_error', 'async_error')


def _send(w, what, p, waiting=True):
    name = 'a'
    if what == 'start_all':
        return w.send('start', waiting=waiting)
    if what == 'stop_all':
        return w.send('stop', waiting=waiting)
    if what == 'restart_all':
        return w.send('restart', waiting=waiting, name='*')
    if what == 'reload_all':
        return w.send('reload', waiting=waiting)
    if what in ('start', 'stop', 'restart'):
        return w.send(what, name=name, waiting=waiting, match='simple')
    if what == 'reload':
        return w.send('reload', name=name, waiting=waiting)
    if what == 'reload_seq':
        return w.send('reload', name=name, waiting=waiting, sequential=True)
    if what == 'reload_term':
        return w.send('reload', name=name, waiting=waiting, graceful=False)
    if what == 'reload_all_term':
        return w.send('reload', waiting=waiting, graceful=False)
    if what == 'incr':
        return w.send('incr', name=name, nb=1 + (p % 2), waiting=waiting)
    if what == 'decr':
        return w.send('decr', name=name, nb=1, waiting=waiting)
    if what == 'set':
        return w.send('set', name=name, options={'numprocesses': 1 + (p % 3)}, waiting=waiting)
    if what == 'set_opt':
        return w.send('set', name=name, options={'args': 'x%d' % (p % 2)}, waiting=waiting)
    if what == 'add':
        return w.send('add', name='n%d' % (p % 2), cmd='prog', waiting=waiting)
    if what == 'add_start':
        return w.send('add', name='n%d' % (p % 2), cmd='prog', start=True, waiting=waiting,
                      options={'numprocesses': 2, 'warmup_delay': 0.3})
    if what == 'rm':
        return w.send('rm', name='b', waiting=waiting)
    if what == 'kill':
        return w.send('kill', name=name, waiting=waiting)
    if what == 'quit_probe':
        return w.send('numwatchers')
    return None


def _sync_bad(w, what):
    """the same request in a form that raises synchronously inside the exclusive section"""
    if what == 'set':
        return w.send('set', name='s', options={'numprocesses': 2}, waiting=True)        # singleton -> ValueError in set_opt
    if what == 'set_opt':
        return w.send('set', name='a', options={'uid': 'no-such-user-xyz'}, waiting=True)  # to_uid raises
    if what == 'add':
        return w.send('add', name='A', cmd='prog', waiting=True)                          # AlreadyExist
    if what == 'incr':
        return w.send('incr', name='a', nb='one', waiting=True)                           # TypeError before the first suspension
    if what == 'decr':
        return w.send('decr', name='a', nb='one', waiting=True)
    if what == 'add_start':
        return w.send('add', name='n0', cmd='prog', start=True, waiting=True, options={'hooks': {'before_start': 'nope.nope'}})
    return None


def _snapshot(w):
    arb = w.arbiter
    k = w.kernel
    return (tuple(sorted((x.name, x.numprocesses, x.status(), tuple(sorted(x.processes)), x.args) for x in arb.watchers)),
            len(k.spawn_log), len(k.signal_log), arb._exclusive_running_command)


def c10_slot(first: int, fate: int, second: int, third: int, g: int, p: int) -> bool:
    """
    pre: first == rt.S['first'] and 0 <= fate < len(FATES)
    pre: 0 <= second < len(SECOND) and 0 <= third < len(SECOND)
    pre: 0 <= g <= rt.S.get('gmax', 4) and 0 <= p <= 1
    pre: third in rt.S.get('thirds', (0, 3, 5, 7, 8))
    post: _
    """
    S = rt.S
    fate = rt.pick(fate, len(FATES))
    first = rt.pick(first, len(FIRST))
    second = rt.pick(second, len(SECOND))
    third = rt.pick(third, len(SECOND))
    with World() as w:
        k = w.kernel
        k.behaviour = lambda i, argv: Beh(obey=0.15)
        wa = w.mk_watcher('a', numprocesses=2, graceful_timeout=0.4, warmup_delay=0.3)
        wb = w.mk_watcher('b', numprocesses=1, graceful_timeout=0.4)
        ws = w.mk_watcher('s', numprocesses=1, graceful_timeout=0.4, singleton=True)
        w.boot([wa, wb, ws], check_delay=-1)
        what = FIRST[first]
        ok = True
        try:
            # ---- the first operation
            if FATES[fate] == 'sync_error':
                r1 = _sync_bad(w, what)
                if r1 is None:
                    return rt.skip()
                if r1.status != 'error':
                    # some of these are only detected later; nothing to check about synchronous failure then
                    w.quiesce()
                f1 = None
            else:
                if FATES[fate] == 'async_error':
                    # the 2nd spawn from now on blows up with an unexpected exception, after the operation suspended
                    k.spawn_errors = {k.spawn_attempts + 1: RuntimeError('exec blew up (injected)')}
                if what == 'check':
                    try:
                        f1 = w.arbiter.manage_watchers()
                    except Exception:
                        f1 = None
                    r1 = None
                else:
                    r1 = _send(w, what, p)
                    f1 = None
            in_flight = w.arbiter._exclusive_running_command
            # ---- a second request g loop turns later
            for _ in range(g):
                w.turn()
            holder = w.arbiter._exclusive_running_command
            transient = [(x.name, x.status()) for x in w.arbiter.watchers if x.status() in ('starting', 'stopping')]
            unanswered = (g >= 1 and r1 is not None and not r1.replies and what not in ('kill',) and FATES[fate] == 'ok')
            if holder is None and unanswered and not transient:
                # the first request was sent with waiting and is still unanswered: its operation has not ended, yet nothing holds the slot
                rt.note('%s (waiting) is still unanswered but the exclusive slot is free: the next request would interleave with it', what)
                ok = False
            if holder is None and transient and FATES[fate] == 'ok':
                # a watcher in a transient status IS an operation in progress (every start / stop path is exclusive here) -- unless the
                # operation was made to fail half-way: then it HAS ended, the slot is rightly free, and the status left behind is C04's subject
                rt.note('%s: watcher(s) %r are in a transient status but the exclusive slot is free: the next request would be accepted', what, transient)
                ok = False
            snap = _snapshot(w)
            s2 = SECOND[second]
            if s2 == 'check':
                try:
                    w.arbiter.manage_watchers()
                    refused2 = False
                except Exception:
                    refused2 = True
                r2 = None
            else:
                r2 = _send(w, s2, p + 1)
                refused2 = r2 is not None and r2.status == 'error'
            if holder is not None and s2 != 'quit_probe':
                if not refused2:
                    rt.note('%s accepted while %s is in flight', s2, holder)
                    ok = False
                else:
                    if r2 is not None and 'arbiter is already running' not in str(r2.reply.get('reason')):
                        if not (s2 in ('rm', 'add', 'set') and r2.reply.get('errno') == 3):
                            rt.note('%s refused while %s in flight, but not as a conflict: %r', s2, holder, r2.reply.get('reason'))
                            ok = False
                    if _snapshot(w) != snap:
                        rt.note('refused %s changed the daemon: %r -> %r', s2, snap, _snapshot(w))
                        ok = False
                    # a third request right away must be refused as well (the refusal must not free the slot)
                    s3 = SECOND[third]
                    if s3 not in ('check', 'quit_probe'):
                        r3 = _send(w, s3, p + 2)
                        if r3.status != 'error':
                            rt.note('after a refused %s, %s was accepted while %s is still in flight', s2, s3, holder)
                            ok = False
            # ---- everything ends; the slot is free and the next state-changing requests are accepted
            w.run_until(lambda: w.arbiter._exclusive_running_command is None, max_time=30.0)
            w.run_for(1.0)
            if w.clock.tripped:
                return rt.skip()
            if w.arbiter._exclusive_running_command is not None:
                rt.note('slot still held by %r after everything ended (first=%s fate=%s)', w.arbiter._exclusive_running_command,
                        what, FATES[fate])
                ok = False
            k.spawn_errors = {}
            pr = w.call('incr', name='b', nb=1, max_time=10.0) if 'b' in w.arbiter._watchers_names else \
                w.call('incr', name='a', nb=1, max_time=10.0)
            w.quiesce()
            if pr.status != 'ok':
                rt.note('probe incr refused after the operation ended: %r', pr.reply)
                ok = False
            pr2 = w.call('decr', name='a', nb=1, max_time=10.0)
            if pr2.status != 'ok':
                rt.note('probe decr refused: %r', pr2.reply)
                ok = False
            return rt.verdict(ok)
        except (scen.Diverged, scen.BlockedLoop):
            return rt.skip()


class FlakyStream(object):
    """a stream whose open() fails on demand (the watcher start then raises after the operation has suspended)"""
    FAIL = False

    def __init__(self, **kw):
        pass

    def open(self):
        if FlakyStream.FAIL:
            raise IOError('cannot open the log (injected)')

    def __call__(self, data):
        pass

    def close(self):
        pass


DEC_OUTCOMES = ('return', 'raise', 'pending_ok', 'pending_fail', 'done_future', 'raise_base')
DEC_WHO = ('arbiter', 'watcher', 'other_object')


def c10_decorator(held: bool, restarting: bool, who: int, outcome: int) -> bool:
    """
    One step of the slot protocol from an ARBITRARY state: util.synchronized around a function whose outcome is chosen
    by the solver, called on the arbiter itself, on an object that refers to it (a watcher) or on an unrelated object,
    with the slot free or held by another command and the arbiter restarting or not.  A refused call runs nothing and
    leaves the slot alone; an accepted call holds the slot exactly as long as the operation lasts, whatever its fate.
    Inductive: every history of exclusive commands is a sequence of such steps.

    pre: 0 <= who < len(DEC_WHO) and 0 <= outcome < len(DEC_OUTCOMES)
    post: _
    """
    import circus.util as cu
    from circus.exc import ConflictError
    from tornado import concurrent
    who = rt.pick(who, len(DEC_WHO))
    outcome = rt.pick(outcome, len(DEC_OUTCOMES))
    oc = DEC_OUTCOMES[outcome]
    with World() as w:
        class Arb(object):
            _exclusive_running_command = 'other_cmd' if held else None
            _restarting = bool(restarting)
        arb = Arb()

        class Wat(object):
            arbiter = arb

        class Other(object):
            pass
        seen = {'calls': 0, 'slot_inside': 'unset'}
        fut = concurrent.Future()

        class Boom(BaseException):
            pass

        def op(self):
            seen['calls'] += 1
            seen['slot_inside'] = arb._exclusive_running_command
            if oc == 'return':
                return 42
            if oc == 'raise':
                raise ValueError('operation failed synchronously')
            if oc == 'raise_base':
                raise Boom()
            if oc == 'done_future':
                fut.set_result(7)
            return fut
        wrapped = cu.synchronized('the_cmd')(op)
        target = {'arbiter': arb, 'watcher': Wat(), 'other_object': Other()}[DEC_WHO[who]]
        governed = DEC_WHO[who] != 'other_object'
        before = arb._exclusive_running_command
        ok = True
        raised = None
        try:
            wrapped(target)
        except ConflictError as e:
            raised = 'conflict'
        except ValueError:
            raised = 'value'
        except Boom:
            raised = 'base'
        if governed and (restarting or held):
            if raised != 'conflict' or seen['calls'] != 0 or arb._exclusive_running_command != before:
                rt.note('slot %r restarting %r: the call must be refused untouched; raised %r, ran %d time(s), slot now %r', before, restarting,
                        raised, seen['calls'], arb._exclusive_running_command)
                ok = False
            return rt.verdict(ok)
        if seen['calls'] != 1:
            rt.note('accepted call ran the operation %d times', seen['calls'])
            ok = False
        if governed and seen['slot_inside'] != 'the_cmd':
            rt.note('while the operation ran the slot was %r', seen['slot_inside'])
            ok = False
        if not governed and arb._exclusive_running_command != before:
            rt.note('a call on an unrelated object changed the slot')
            ok = False
        if oc in ('return', 'raise', 'raise_base'):
            if (oc == 'raise') != (raised == 'value') or (oc == 'raise_base') != (raised == 'base'):
                rt.note('outcome %s but the caller saw %r', oc, raised)
                ok = False
            if governed and arb._exclusive_running_command is not None:
                rt.note('the operation ended (%s) but the slot is still %r', oc, arb._exclusive_running_command)
                ok = False
        else:
            if oc in ('pending_ok', 'pending_fail'):
                if governed and arb._exclusive_running_command != 'the_cmd':
                    rt.note('the operation is suspended but the slot is %r', arb._exclusive_running_command)
                    ok = False
                if oc == 'pending_ok':
                    fut.set_result(1)
                else:
                    fut.set_exception(RuntimeError('failed after suspension'))
            for _ in range(3):
                w.turn()
            if governed and arb._exclusive_running_command is not None:
                rt.note('the operation ended (%s) but the slot is still %r', oc, arb._exclusive_running_command)
                ok = False
            if oc == 'pending_fail':
                try:
                    fut.exception()
                except Exception:   # noqa
                    pass
        return rt.verdict(ok)


def c10_reloadconfig(fail: int, edit: int) -> bool:
    """
    reloadconfig after an edit of the [circus] section (everything is stopped and started again in process) or of a
    watcher; the restart may fail half-way (a stream cannot be opened).  Afterwards the slot is free and the next
    state-changing requests are accepted: the daemon is not wedged.

    pre: 0 <= fail <= 1 and 0 <= edit <= 2
    post: _
    """
    import os
    import shutil
    import tempfile
    fail = rt.pick(fail, 2)
    edit = rt.pick(edit, 3)
    tmp = tempfile.mkdtemp(prefix='c10_')
    path = os.path.join(tmp, 'circus.ini')

    def write(check_delay, np_b, cmd_a):
        with open(path, 'w') as f:
            f.write('\n'.join(['[circus]', 'check_delay = %d' % check_delay, 'endpoint = tcp://127.0.0.1:5555',
                               'pubsub_endpoint = tcp://127.0.0.1:5556', '',
                               '[watcher:a]', 'cmd = %s' % cmd_a, 'numprocesses = 1', 'graceful_timeout = 0.2',
                               'stdout_stream.class = vtlib.harness.c10.FlakyStream', '',
                               '[watcher:b]', 'cmd = progb', 'numprocesses = %d' % np_b, 'graceful_timeout = 0.2', '']))
    FlakyStream.FAIL = False
    write(-1, 1, 'proga')
    try:
        with World() as w:
            k = w.kernel
            k.behaviour = lambda i, argv: Beh(obey=0.0)
            from vtlib.world import pipes as vpipes
            k.pipes = vpipes.PipeTable(k)
            import circus.arbiter as _ca
            real_get_config = _ca.get_config

            def get_config_untraced(p_):
                with rt.untraced():
                    return real_get_config(p_)
            w._patch(_ca, 'get_config', get_config_untraced)
            w.boot_from_config(path)
            if edit == 0:
                write(-2, 1, 'proga')          # arbiter-level change: in-process restart of every watcher
            elif edit == 1:
                write(-1, 1, 'proga2')         # the watcher with the flaky stream is re-created
            else:
                write(-1, 2, 'proga')          # numprocesses only
            FlakyStream.FAIL = bool(fail)
            r = w.call('reloadconfig', waiting=True, max_time=20.0)
            w.run_for(1.0)
            FlakyStream.FAIL = False
            ok = True
            if w.arbiter._exclusive_running_command is not None:
                rt.note('slot still held by %r after reloadconfig (fail=%d edit=%d)', w.arbiter._exclusive_running_command, fail, edit)
                ok = False
            for cmd_, props in (('incr', {'name': 'b', 'nb': 1}), ('decr', {'name': 'b', 'nb': 1}), ('stop', {'name': 'b', 'match': 'simple'}),
                                ('start', {'name': 'b', 'match': 'simple'})):
                pr = w.call(cmd_, max_time=10.0, **props)
                w.quiesce()
                if pr.status != 'ok':
                    rt.note('after reloadconfig (fail=%d edit=%d, reply %r) %s is refused: %r', fail, edit,
                            r.reply.get('status') if r.reply else None, cmd_, pr.reply)
                    ok = False
            return rt.verdict(ok)
    except (scen.Diverged, scen.BlockedLoop):
        return rt.skip()
    finally:
        FlakyStream.FAIL = False
        shutil.rmtree(tmp, ignore_errors=True)


def _canary_refusal_frees():
    """a refused call releases the slot of the operation in flight"""
    import functools
    import circus.util as cu
    from tornado import concurrent
    from circus.exc import ConflictError

    def synchronized(name):
        def real_decorator(f):
            @functools.wraps(f)
            def wrapper(self, *args, **kwargs):
                arbiter = None
                if hasattr(self, "arbiter"):
                    arbiter = self.arbiter
                elif hasattr(self, "_exclusive_running_command"):
                    arbiter = self
                resp = None
                try:
                    if arbiter is not None:
                        if arbiter._restarting:
                            raise ConflictError("arbiter is restarting...")
                        if arbiter._exclusive_running_command is not None:
                            raise ConflictError("arbiter is already running %s command" % arbiter._exclusive_running_command)
                        arbiter._exclusive_running_command = name
                    resp = f(self, *args, **kwargs)
                finally:
                    if isinstance(resp, concurrent.Future):
                        cb = functools.partial(cu._synchronized_cb, arbiter)
                        concurrent.future_add_done_callback(resp, cb)
                    else:
                        if arbiter is not None:
                            arbiter._exclusive_running_command = None
                return resp
            return wrapper
        return real_decorator
    # re-decorate the methods that matter
    import circus.watcher as cw
    for nm in ('incr', 'decr', 'stop', 'start', 'restart', 'reload', 'do_action'):
        inner = getattr(cw.Watcher, nm).__wrapped__
        setattr(cw.Watcher, nm, synchronized('watcher_' + nm)(inner))


def _canary_cb_result():
    """the done-callback touches future.result() before releasing: a failed operation keeps the slot"""
    import circus.util as cu

    def _synchronized_cb(arbiter, future):
        future.result()
        if arbiter is not None:
            arbiter._exclusive_running_command = None
    cu._synchronized_cb = _synchronized_cb


CANARIES = {
    'refusal_frees_the_slot': {'apply': _canary_refusal_frees, 'conds': ['c10_slot'], 'shards': [{'first': 6, 'gmax': 1, 'thirds': [0, 5]}],
                               'what': 'ConflictError raised inside the try/finally that releases the slot'},
    'failed_operation_keeps_slot': {'apply': _canary_cb_result, 'conds': ['c10_slot'], 'shards': [{'first': 9, 'gmax': 1}],
                                    'what': 'done-callback raises on a failed future before releasing the slot'},
}


def plan(tier):
    q = tier == 'quick'
    sh = [dict({'first': i, 'gmax': 1 if q else 6}, **({'thirds': [0, 5]} if q else {})) for i in range(len(FIRST))]
    return [
        Cond('c10_decorator', budget=60, twins=1,
             bounds={'slot': 'S{free, held by another command}', 'restarting': 'S{False, True}', 'callee': 'S%r' % (DEC_WHO,),
                     'outcome': 'S%r' % (DEC_OUTCOMES,)}),
        Cond('c10_reloadconfig', budget=120, twins=1,
             bounds={'edit': 'S{[circus] option (in-process restart), watcher cmd, numprocesses only}', 'fail': 'S{restart succeeds, a stream open() raises}'}),
        Cond('c10_slot', shards=sh, budget=240 if q else 1500, twins=2,
             bounds={'first': 'S: shard key over %r' % (FIRST,), 'fate': 'S%r' % (FATES,), 'second,third': 'S%r' % (SECOND,),
                     'g': 'R[0,gmax] loop turns between the first and the second request', 'p': 'S[0,2] parameter variants'}),
    ]
