"""C14 -- hooks gate exactly the transitions they are documented to gate.

Real code under the solver: Watcher.call_hook, _start, spawn_processes, spawn_process, _stop, send_signal,
kill_process, the start / stop / restart / signal / kill commands.  World: vtlib.world.
"""
import signal

from vtlib import rt
from vtlib.driver import Cond
from vtlib.harness import scen
from vtlib.harness.scen import World, Beh

PROPERTY = 'C14'
TITLE = 'Hooks gate exactly the transitions they are documented to gate'
FUNCTIONS = ['circus/watcher.py:Watcher.call_hook', 'circus/watcher.py:Watcher._start', 'circus/watcher.py:Watcher.spawn_processes',
             'circus/watcher.py:Watcher.spawn_process', 'circus/watcher.py:Watcher._stop', 'circus/watcher.py:Watcher.send_signal',
             'circus/watcher.py:Watcher.kill_process']
ASSUMPTIONS = [
    'simulated kernel / clock / zmq as in C01; hooks are harness callables with a scripted outcome (true / false / raise, from the k-th call on) '
    'and do not re-enter the daemon',
]
EXPLANATION = ('C14: (A) start with every assignment of {true,false,raise} x {ignore flag} to the four start-phase hooks (quick: at most two '
               'non-default hooks; thorough: all 3^4 x 2^4), the outcome taking effect from the first or from the second call; (B) stop / restart / '
               'signal / kill with every assignment to before_stop, after_stop, before_signal, after_signal; obedient and stubborn workers. ')

START_HOOKS = ('before_start', 'before_spawn', 'after_spawn', 'after_start')
STOP_HOOKS = ('before_stop', 'after_stop', 'before_signal', 'after_signal')
DEFAULT_IGNORED = ('before_stop', 'after_stop', 'before_signal', 'after_signal')
TRUE, FALSE, RAISE = 0, 1, 2


class Hook(object):
    def __init__(self, name, outcome, from_call=0):
        self.name = name
        self.outcome = outcome
        self.from_call = from_call
        self.calls = 0
        self.kw = []

    def __call__(self, watcher=None, arbiter=None, hook_name=None, **kw):
        i = self.calls
        self.calls += 1
        self.kw.append(kw)
        o = self.outcome if i >= self.from_call else TRUE
        if o == RAISE:
            if rt.S.get('bare'):
                raise AssertionError()         # an exception WITHOUT a message (a bare `assert`, `raise RuntimeError`): args == ()
            raise RuntimeError('hook %s raised (scripted)' % self.name)
        return o == TRUE


def eff(name, outcome, ignore):
    if outcome == TRUE:
        return True
    if outcome == FALSE:
        return False
    return bool(ignore) or name in DEFAULT_IGNORED


def _events_match(w, hooks):
    ok = True
    for name, h in hooks.items():
        n = len([1 for (t, topic, o) in w.events if topic == 'watcher.a.hook_success' and o.get('name') == name]) + \
            len([1 for (t, topic, o) in w.events if topic == 'watcher.a.hook_failure' and o.get('name') == name])
        if n != h.calls:
            rt.note('hook %s called %d times, %d hook_success/hook_failure events', name, h.calls, n)
            ok = False
    return ok


def c14_start(c1: int, c2: int, c3: int, c4: int, fc: int) -> bool:
    """
    c_i = outcome*2 + ignore for before_start, before_spawn, after_spawn, after_start; fc = the outcome takes
    effect from call number fc (0 or 1) on.

    pre: 0 <= c1 <= 5 and 0 <= c2 <= 5 and 0 <= c3 <= 5 and 0 <= c4 <= 5 and 0 <= fc <= 1
    pre: (c1 > 0) + (c2 > 0) + (c3 > 0) + (c4 > 0) <= rt.S.get('maxhooks', 4)
    post: _
    """
    S = rt.S
    cs = [rt.pick(c, 6) for c in (c1, c2, c3, c4)]
    fc = rt.pick(fc, 2)
    beh = S.get('beh', 0)
    if cs[2] // 2 != TRUE and beh != 0 and rt.finding_listed('c04.after_spawn_veto_leaks_stubborn_worker'):
        return rt.skip()          # listed known finding (C04/C14): vetoed worker that ignores the stop signal
    with World() as w:
        k = w.kernel
        k.behaviour = (lambda i, argv: Beh(obey=0.0)) if beh == 0 else (lambda i, argv: Beh(obey=None))
        hooks = {}
        hk = {}
        for name, c in zip(START_HOOKS, cs):
            h = Hook(name, c // 2, fc if name in ('before_spawn', 'after_spawn') else 0)
            hooks[name] = h
            hk[name] = (h, bool(c % 2))
        if S.get('bsig') is not None:
            # a before_signal hook with a fixed outcome on top: the stop signal of a vetoed worker may be withheld, the SIGKILL never
            h = Hook('before_signal', S['bsig'])
            hooks['before_signal'] = h
            hk['before_signal'] = (h, False)
        n0 = S.get('n0', 2)
        # another watcher, created first, whose hooks all carry the ignore-failure flag: flags are per watcher
        other = dict((name, (Hook(name, TRUE), True)) for name in START_HOOKS + STOP_HOOKS)
        wz = w.mk_watcher('z', numprocesses=1, graceful_timeout=0.2, hooks=other)
        wa = w.mk_watcher('a', numprocesses=n0, graceful_timeout=0.2, hooks=hk, autostart=False)
        w.boot([wz, wa], check_delay=-1)
        k.spawn_log[:] = [rec for rec in k.spawn_log if rec['tag'] != 'z']
        try:
            r = w.call('start', name='a', waiting=True, match='simple', max_time=20.0)
            w.run_for(1.0)
            if S.get('bsig') is not None:
                w.check_now()             # a rejected worker that only died of the final terminate() is collected by the periodic check
                w.run_for(0.1)
            if w.clock.tripped:
                return rt.skip()
            # expected outcome from the documented gating rules
            e = [eff(n, c // 2, c % 2) for n, c in zip(START_HOOKS, cs)]
            spawn_gate_fails = (not e[1] or not e[2]) and (fc < n0)
            should_run = e[0] and not spawn_gate_fails and e[3]
            alive = k.alive_pids('a')
            ok = True
            if should_run:
                if wa.status() != 'active' or len(alive) != n0:
                    rt.note('all gating hooks passed but status=%r live=%r', wa.status(), alive)
                    ok = False
            else:
                if wa.status() != 'stopped' or alive or k.zombie_pids('a'):
                    rt.note('a start-phase hook vetoed (%r, from call %d) but status=%r live=%r', cs, fc, wa.status(), alive)
                    ok = False
                if not e[0] and k.spawn_log:
                    rt.note('before_start vetoed but %d workers were spawned', len(k.spawn_log))
                    ok = False
            ok = _events_match(w, hooks) and ok
            if not r.replies:
                rt.note('start request never answered')
                ok = False
            return rt.verdict(ok)
        except (scen.Diverged, scen.BlockedLoop):
            return rt.skip()


REQS = ('stop', 'restart', 'signal_term', 'signal_kill', 'signal_kill_name', 'kill', 'kill_kill', 'signal_usr1_pid')


def c14_stop(c1: int, c2: int, c3: int, c4: int, ri: int) -> bool:
    """
    c_i = outcome*2 + ignore for before_stop, after_stop, before_signal, after_signal.

    pre: 0 <= c1 <= 5 and 0 <= c2 <= 5 and 0 <= c3 <= 5 and 0 <= c4 <= 5
    pre: (c1 > 0) + (c2 > 0) + (c3 > 0) + (c4 > 0) <= rt.S.get('maxhooks', 4)
    pre: ri == rt.S['ri']
    post: _
    """
    S = rt.S
    cs = [rt.pick(c, 6) for c in (c1, c2, c3, c4)]
    ri = rt.pick(ri, len(REQS))
    beh = S.get('beh', 0)
    with World() as w:
        k = w.kernel
        k.behaviour = (lambda i, argv: Beh(obey=0.0)) if beh == 0 else (lambda i, argv: Beh(obey=None))
        hooks = {}
        hk = {}
        for name, c in zip(STOP_HOOKS, cs):
            h = Hook(name, c // 2)
            hooks[name] = h
            hk[name] = (h, bool(c % 2))
        wa = w.mk_watcher('a', numprocesses=2, graceful_timeout=0.2, hooks=hk)
        w.boot([wa], check_delay=-1)
        pids = k.alive_pids('a')
        req = REQS[ri]
        try:
            veto = not eff('before_signal', cs[2] // 2, cs[2] % 2)
            if req == 'stop':
                r = w.call('stop', name='a', waiting=True, match='simple', max_time=20.0)
            elif req == 'restart':
                r = w.call('restart', name='a', waiting=True, match='simple', max_time=20.0)
            elif req == 'signal_term':
                r = w.call('signal', name='a', signum=15)
            elif req == 'signal_kill':
                r = w.call('signal', name='a', signum=9)
            elif req == 'signal_kill_name':
                r = w.call('signal', name='a', signum='KILL')
            elif req == 'signal_usr1_pid':
                r = w.call('signal', name='a', signum='usr1', pid=pids[0])
            elif req == 'kill':
                r = w.call('kill', name='a', waiting=True, max_time=20.0)
            else:
                r = w.call('kill', name='a', waiting=True, signum='SIGKILL', max_time=20.0)
            w.run_for(1.0)
            if req in ('kill', 'kill_kill'):
                k.behaviour = lambda i, argv: Beh(obey=0.0)
                w.check_now()           # the kill command leaves the reaping to the periodic check
                w.run_for(0.5)
            if w.clock.tripped:
                return rt.skip()
            ok = True
            log = [s for s in k.signal_log if s['pid'] in pids]
            if req in ('stop', 'restart', 'kill', 'kill_kill'):
                still = [p for p in pids if k.procs[p].state != 'gone']
                if still:
                    rt.note('%s with hooks %r: workers %r not terminated and reaped', req, cs, still)
                    ok = False
                if req == 'stop' and wa.status() != 'stopped':
                    rt.note('stop hooks %r left status %r', cs, wa.status())
                    ok = False
                if req == 'restart' and (wa.status() != 'active' or len(k.alive_pids('a')) != 2):
                    rt.note('restart with hooks %r: status %r live %r', cs, wa.status(), k.alive_pids('a'))
                    ok = False
                if veto and req != 'kill_kill':
                    # (Process.stop() re-sends SIGTERM to a process that has already been SIGKILLed: not the vetoed stop signal)
                    first = [s for s in log if s['sig'] == 15 and
                             not [x for x in log if x['pid'] == s['pid'] and x['sig'] == 9 and x['t'] <= s['t']]]
                    if first:
                        rt.note('before_signal vetoed but the stop signal was delivered: %r', first[:2])
                        ok = False
                if req == 'kill_kill' and len([s for s in log if s['sig'] == 9]) < len(pids):
                    rt.note('kill with SIGKILL vetoed by before_signal %r', cs[2])
                    ok = False
            elif req == 'signal_term':
                n = len([s for s in log if s['sig'] == 15])
                if (veto and n) or (not veto and n != len(pids)):
                    rt.note('signal TERM: before_signal %r, %d deliveries for %d workers', cs[2], n, len(pids))
                    ok = False
            elif req in ('signal_kill', 'signal_kill_name'):
                n = len([s for s in log if s['sig'] == 9])
                if n != len(pids):
                    rt.note('SIGKILL must always be sent: %d deliveries for %d workers (before_signal %r)', n, len(pids), cs[2])
                    ok = False
            else:
                n = len([s for s in log if s['sig'] == int(signal.SIGUSR1)])
                if (veto and n) or (not veto and n != 1):
                    rt.note('signal USR1 to one pid: %d deliveries (before_signal %r)', n, cs[2])
                    ok = False
            ok = _events_match(w, hooks) and ok
            if not r.replies:
                rt.note('%s never answered', req)
                ok = False
            return rt.verdict(ok)
        except (scen.Diverged, scen.BlockedLoop):
            return rt.skip()


def _canary_sigkill_by_name():
    """SIGKILL exemption keyed on the enum name: a plain int 9 loses it"""
    import circus.watcher as cw

    def send_signal(self, pid, signum):
        is_sigkill = getattr(signum, 'name', None) == 'SIGKILL'
        if pid in self.processes:
            process = self.processes[pid]
            hook_result = self.call_hook("before_signal", pid=pid, signum=signum)
            if not is_sigkill and not hook_result:
                pass
            else:
                process.send_signal(signum)
            self.call_hook("after_signal", pid=pid, signum=signum)
    cw.Watcher.send_signal = send_signal


def _canary_no_stop_on_veto():
    """spawn_processes no longer stops the watcher itself on a vetoed spawn"""
    import circus.watcher as cw
    from tornado import gen

    @gen.coroutine
    def spawn_processes(self):
        if self.pending_socket_event:
            self._status = "stopped"
            return
        for i in self._found_wids:
            self.spawn_process(i)
            yield cw.tornado_sleep(0)
        self._found_wids = {}
        for i in range(self.numprocesses - len(self.processes)):
            res = self.spawn_process()
            if res is False:
                break
            delay = self.warmup_delay
            if isinstance(res, float):
                delay -= (cw.time.time() - res)
                if delay < 0:
                    delay = 0
            yield cw.tornado_sleep(delay)
    cw.Watcher.spawn_processes = spawn_processes


CANARIES = {
    'sigkill_exemption_by_enum_name': {'apply': _canary_sigkill_by_name, 'conds': ['c14_stop'], 'shards': [{'ri': 3, 'maxhooks': 1}],
                                       'what': 'SIGKILL given as a plain int is vetoed by before_signal'},
    'late_veto_leaves_watcher_active': {'apply': _canary_no_stop_on_veto, 'conds': ['c14_start'], 'shards': [{'maxhooks': 1, 'n0': 2}],
                                        'what': 'a spawn veto on the second worker leaves the watcher active with one worker'},
}

KNOWN = []


def plan(tier):
    q = tier == 'quick'
    start_sh = [{'maxhooks': 2 if q else 4, 'n0': 2, 'beh': 0}, {'maxhooks': 1 if q else 2, 'n0': 2, 'beh': 2},
                {'maxhooks': 1, 'n0': 3, 'beh': 0}, {'maxhooks': 1 if q else 2, 'n0': 2, 'beh': 0, 'bsig': FALSE},
                {'maxhooks': 1, 'n0': 2, 'beh': 0, 'bsig': RAISE}, {'maxhooks': 1 if q else 2, 'n0': 2, 'beh': 0, 'bare': True}]
    mh = 2 if q else 4
    stop_sh = [{'ri': i, 'beh': 0, 'maxhooks': mh} for i in range(len(REQS))] + [{'ri': i, 'beh': 2, 'maxhooks': mh} for i in (0, 1, 5)] + \
        [{'ri': i, 'beh': 0, 'maxhooks': 1, 'bare': True} for i in (0, 2)]
    return [
        Cond('c14_start', shards=start_sh, budget=240 if q else 2400, twins=2,
             bounds={'c1..c4': 'S: {true,false,raise} x {ignore flag} per start-phase hook (quick: at most 2 non-default hooks at a time; '
                     'thorough: all 1296 assignments)', 'fc': 'S{from the first call, from the second call}', 'workers': 'S{obedient, stubborn}', 'bsig': 'S: additionally a before_signal hook that returns false / raises', 'bare': 'S: raising hooks raise an exception without a message'}),
        Cond('c14_stop', shards=stop_sh, budget=240 if q else 1200, twins=2,
             bounds={'c1..c4': 'S: assignments to before_stop, after_stop, before_signal, after_signal (quick: at most two non-default at a time; thorough: all 1296)', 'request': 'S%r' % (REQS,)}),
    ]
