"""Shared schedule interpreter for the simulated-world harnesses (C01, C02, C04, C05, C09, ...).

A schedule is a list of (event, param, gap) triples chosen by the solver.  Events are applied to a
REAL Arbiter/Controller/Watcher booted on vtlib.world; `gap` places the event relative to the
daemon's own steps.
"""
from vtlib.world.world import World, Beh, Diverged, BlockedLoop  # noqa: F401
from vtlib.world import core

# events ---------------------------------------------------------------------------------------
EV_CHECK = 0        # periodic check now
EV_EXIT = 1         # a worker exits by itself (status from param)
EV_XKILL = 2        # a worker is SIGKILLed from outside
EV_INCR = 3         # incr nb (param)
EV_DECR = 4         # decr nb (param)
EV_SETNP = 5        # set numprocesses (param)
EV_RESTART = 6
EV_RELOAD = 7       # graceful, parallel
EV_RELOAD_SEQ = 8   # graceful, sequential
EV_RELOAD_TERM = 9  # graceful=False
EV_TIME = 10        # 0.35 s pass
EV_STOP = 11
EV_START = 12
EV_KILLCMD = 13     # non-exclusive `kill` request for the watcher
EV_SIGNALCMD = 14   # non-exclusive `signal` request (SIGUSR1)
EV_SETOPT = 16      # set of a reload-class option (args / env / working_dir / max_age by param)
EV_INCR_BIG = 17    # incr by 12 at once
EV_KILL0 = 18       # kill request with graceful_timeout=0 (waiting)
EV_NONE = 15

NAMES = {EV_CHECK: 'check', EV_EXIT: 'exit', EV_XKILL: 'xkill', EV_INCR: 'incr', EV_DECR: 'decr',
         EV_SETNP: 'set_np', EV_RESTART: 'restart', EV_RELOAD: 'reload', EV_RELOAD_SEQ: 'reload_seq',
         EV_RELOAD_TERM: 'reload_term', EV_TIME: 'time', EV_STOP: 'stop', EV_START: 'start',
         EV_KILLCMD: 'kill_cmd', EV_SIGNALCMD: 'signal_cmd', EV_NONE: 'none', EV_SETOPT: 'set_opt', EV_INCR_BIG: 'incr_12', EV_KILL0: 'kill_gt0'}

# gaps -----------------------------------------------------------------------------------------
GAP_NOW = 0         # immediately, without letting the loop turn
GAP_TURN = 1        # after one loop turn
GAP_TURN2 = 2       # after two loop turns
GAP_QUIET = 3       # after the exclusive slot is free again (quiescence)


# configuration variants shared by the scenario harnesses ----------------------------------------
VARIANTS = {
    'default': {},
    'gt0': {'graceful_timeout': 0},
    'max_age': {'max_age': 1, 'max_age_variance': 0},
    'max_age_var': {'max_age': 3, 'max_age_variance': 2},      # the stagger (randint) is pinned to its upper bound by the world
    'send_hup': {'send_hup': True},
    'respawn_off': {'respawn': False},
    'stop_children': {'stop_children': True},
    'warm': {'warmup_delay': 0.3},
}


def variant(name, **base):
    """watcher keyword arguments for a configuration variant (later keys win)"""
    kw = dict(base)
    kw.update(VARIANTS[name or 'default'])
    return kw


class Sched(object):
    def __init__(self, world, wname='a'):
        self.w = world
        self.wname = wname
        self.reqs = []          # (event, Request)
        self.trace = []
        self.op_calls = []

    def gap(self, g):
        w = self.w
        if g == GAP_NOW:
            return
        if g == GAP_TURN:
            w.turn()
        elif g == GAP_TURN2:
            w.turn()
            w.turn()
        else:
            w.quiesce()

    def apply(self, e, p, waiting=True):
        """apply one event; returns the Request for requests, else None"""
        w = self.w
        k = w.kernel
        name = self.wname
        self.trace.append((NAMES.get(e, e), p, round(w.clock.now - w.t0, 3)))
        self.op_calls.append(k.calls)        # kernel-call index at which this event begins
        req = None
        if e == EV_CHECK:
            try:
                w.arbiter.manage_watchers()
            except Exception:   # ConflictError when an operation holds the slot: the check is skipped
                pass
        elif e == EV_EXIT:
            alive = k.workers(name, ('alive',))
            if alive:
                victim = alive[p % len(alive)]
                k._die(victim, core.status_exit(p & 0xff), 'self-exit')
        elif e == EV_XKILL:
            alive = k.workers(name, ('alive',))
            if alive:
                k.external_kill(alive[p % len(alive)].pid)
        elif e == EV_INCR:
            req = w.send('incr', name=name, nb=p, waiting=waiting)
        elif e == EV_DECR:
            req = w.send('decr', name=name, nb=p, waiting=waiting)
        elif e == EV_SETNP:
            req = w.send('set', name=name, options={'numprocesses': p}, waiting=waiting)
        elif e == EV_RESTART:
            req = w.send('restart', name=name, waiting=waiting, match='simple')
        elif e == EV_RELOAD:
            req = w.send('reload', name=name, waiting=waiting)
        elif e == EV_RELOAD_SEQ:
            req = w.send('reload', name=name, waiting=waiting, sequential=True)
        elif e == EV_RELOAD_TERM:
            req = w.send('reload', name=name, waiting=waiting, graceful=False)
        elif e == EV_TIME:
            w.run_for(0.35)
        elif e == EV_STOP:
            req = w.send('stop', name=name, waiting=waiting, match='simple')
        elif e == EV_START:
            req = w.send('start', name=name, waiting=waiting, match='simple')
        elif e == EV_KILLCMD:
            req = w.send('kill', name=name, waiting=waiting)
        elif e == EV_SIGNALCMD:
            # param: 0 plain, 1 recursive, 2 children, 3 = one worker (first live pid) recursively
            extra = ({}, {'recursive': True}, {'children': True}, {'recursive': True})[p % 4]
            if p % 4 == 3:
                alive = k.alive_pids(name)
                if alive:
                    extra = dict(extra, pid=alive[0])
            req = w.send('signal', name=name, signum=10, **extra)
        elif e == EV_KILL0:
            req = w.send('kill', name=name, waiting=waiting, graceful_timeout=0)
        elif e == EV_INCR_BIG:
            req = w.send('incr', name=name, nb=12, waiting=waiting)
        elif e == EV_SETOPT:
            opts = ({'args': 'x y'}, {'env': {'A': 'b'}}, {'working_dir': '/tmp'}, {'max_age': 0})[p % 4]
            req = w.send('set', name=name, options=dict(opts), waiting=waiting)
        if req is not None:
            self.reqs.append((e, req))
        return req

    def settle(self, checks=3, dt=1.0):
        """let in-flight operations finish, then `checks` periodic checks `dt` apart"""
        w = self.w
        w.quiesce(max_time=120.0)
        for _ in range(checks):
            w.run_for(dt)
            w.quiesce(max_time=120.0)


def snapshot_logs(world):
    k = world.kernel
    return (len(k.spawn_log), len(k.signal_log))
