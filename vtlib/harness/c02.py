"""C02 -- stop leaves no survivor and no zombie, and stopped stays stopped.

Real code under the solver: Watcher._stop / kill_processes / kill_process / reap_processes / reap_process,
Arbiter._stop_watchers / rm_watcher / stop / stop_watchers, the stop / restart / rm / quit commands,
Controller.dispatch.  World: vtlib.world.
"""
from vtlib import rt
from vtlib.driver import Cond
from vtlib.harness import scen
from vtlib.harness.scen import World, Beh, Sched
from vtlib.world import core

PROPERTY = 'C02'
TITLE = 'Stop leaves no survivor and no zombie, and stopped stays stopped'
FUNCTIONS = ['circus/watcher.py:Watcher._stop', 'circus/watcher.py:Watcher.kill_processes',
             'circus/watcher.py:Watcher.kill_process', 'circus/watcher.py:Watcher.reap_processes',
             'circus/watcher.py:Watcher.reap_process', 'circus/arbiter.py:Arbiter._stop_watchers',
             'circus/arbiter.py:Arbiter.rm_watcher', 'circus/arbiter.py:Arbiter.stop',
             'circus/watcher.py:Watcher.manage_processes', 'circus/watcher.py:Watcher.spawn_process']
ASSUMPTIONS = [
    'simulated kernel / clock / zmq as in C01 (vtlib.world); graceful_timeout 0.2 s; worker behaviours: dies at once, '
    'after 0.15 s, after 0.3 s (past the timeout), never (ignores the stop signal)',
    'a run in which the event loop is blocked (time.sleep watchdog) is C05\'s subject and skipped here',
]
EXPLANATION = ('C02: request in {stop, restart, rm, quit}, issued at quiescence or while a non-exclusive kill request is in '
               'flight, a worker death injected at any kernel call of the stop sequence, then K follow-up events on the stopped watcher. ')

REQ_STOP, REQ_RESTART, REQ_RM, REQ_QUIT, REQ_RM_NOSTOP = 0, 1, 2, 3, 4
BEHS = {
    0: lambda i, argv: Beh(obey=0.0),
    1: lambda i, argv: Beh(obey=0.15),
    2: lambda i, argv: Beh(obey=None),
    3: lambda i, argv: Beh(obey=0.3),
    4: lambda i, argv: Beh(obey=None) if i % 2 == 0 else Beh(obey=0.15),
}
FOLLOW = (scen.EV_CHECK, scen.EV_INCR, scen.EV_DECR, scen.EV_SETNP, scen.EV_TIME, scen.EV_KILLCMD, scen.EV_SIGNALCMD,
          scen.EV_SETOPT, 'RESTART_OTHERS', 'START_OTHERS')


def _follow(w, sc, ev, p):
    # requests that name OTHER watchers by a pattern are not start requests for the stopped one
    if ev == 'RESTART_OTHERS':
        return w.call('restart', name='b*', waiting=True, max_time=20.0)
    if ev == 'START_OTHERS':
        return w.call('start', name='b*', waiting=True, max_time=20.0)
    return sc.apply(ev, p)


def c02_stop(when: int, d: int, v: int, f1: int, p1: int, f2: int, p2: int) -> bool:
    """
    pre: 0 <= when <= rt.S.get('whenmax', 1)
    pre: 0 <= d <= rt.S.get('dmax', 0) and 0 <= v <= 1
    pre: 0 <= f1 < len(FOLLOW) and 0 <= f2 < len(FOLLOW) and -1 <= p1 <= 2 and -1 <= p2 <= 2
    pre: rt.S.get('K', 1) >= 2 or (f2 == 0 and p2 == 0)
    pre: rt.S.get('K', 1) >= 1 or (f1 == 0 and p1 == 0)
    pre: rt.S.get('dmax', 0) > 0 or v == 0
    post: _
    """
    S = rt.S
    req_kind = S.get('req', REQ_STOP)
    with World() as w:
        k = w.kernel
        k.behaviour = BEHS[S.get('beh', 0)]
        var = S.get('var', 'default')
        wb = w.mk_watcher('b', numprocesses=1, graceful_timeout=0.2)
        if var == 'on_demand':
            # started by the first connection on a managed socket (a background start, paced 0.3 s apart)
            from circus.sockets import CircusSocket
            pause = S.get('od_phase') == 'pause'
            wa = w.mk_watcher('a', numprocesses=1 if pause else 2, graceful_timeout=0.2, warmup_delay=0 if pause else 0.3, on_demand=True,
                              use_sockets=True, priority=5)
            ws = [wa, wb]
            if pause:
                # a second on_demand watcher waits behind a in the start order; the arbiter paces watchers 0.5 s apart
                ws.append(w.mk_watcher('c', numprocesses=1, graceful_timeout=0.2, on_demand=True, use_sockets=True, priority=1))
            w.boot(ws, check_delay=1.0, warmup_delay=0.5 if pause else 0, sockets=[CircusSocket(name='web', host='127.0.0.1', port=0)])
            w.select_result = [w.arbiter.sockets['web'].fileno()]
            if pause:
                w.run_until(lambda: bool(k.alive_pids('a')), max_time=3.0)
            else:
                w.run_for(1.05)                               # the periodic check sees the connection and starts the watcher
            w.select_result = []                              # ... which is then served: no further socket event
            if pause:
                w.run_for(0.1)                                # a is up; the background start is in its pause before the next watcher
            elif S.get('od_phase') == 'active':
                w.run_for(1.0)
                k.external_kill(k.alive_pids('a')[0])        # one worker dies: the watcher stays up with the other one
                w.run_for(1.0)
            else:
                w.run_for(0.1)                                # the request arrives while the second worker is still to be spawned
        else:
            wa = w.mk_watcher('a', **scen.variant(var, numprocesses=S.get('n0', 2), graceful_timeout=0.2))
            # (a third watcher, so that a pattern naming "the others" matches two of them)
            w.boot([wa, wb, w.mk_watcher('b2', numprocesses=1, graceful_timeout=0.2)], check_delay=0.1 if var == 'max_age' else 1.0)
        if var == 'max_age':
            w.run_for(0.93)                 # the workers are about to expire: the next periodic checks will replace them
        started = set(p['pid'] for p in k.spawn_log if p['tag'] == 'a')
        sc = Sched(w)
        try:
            if when == 1:
                sc.apply(scen.EV_KILLCMD, 0)          # a non-exclusive kill is waiting on the workers
            if S.get('dmax', 0) > 0 and d > 0:
                k.injections.append({'at_call': k.calls + d, 'victim': ('nth', v),
                                     'status': core.status_signal(9)})
            if var == 'max_age' and when == 1:
                w.run_for(0.5)              # periodic checks (max_age expiry) run while the kill request is in its grace period
            if S.get('killfail') is not None:
                k.kill_errors.add(k.kill_count + S['killfail'])     # one signal delivery of the stop sequence fails (EPERM)
            if req_kind == REQ_STOP:
                req = w.send('stop', name='a', waiting=True, match='simple')
            elif req_kind == REQ_RESTART:
                req = w.send('restart', name='a', waiting=True, match='simple')
            elif req_kind == REQ_RM:
                req = w.send('rm', name='a', waiting=True)
            elif req_kind == REQ_RM_NOSTOP:
                req = w.send('rm', name='a', waiting=True, nostop=True)
            else:
                req = w.send('quit', waiting=True)
            if req_kind == REQ_QUIT:
                w.run_until(lambda: all(x.is_stopped() for x in (wa, wb)) and not k.workers(None), max_time=30.0)
                w.run_for(1.0 if var == 'on_demand' else 0.3)
            else:
                w.run_until(lambda: bool(req.replies), max_time=60.0)
            k.injections = [i for i in k.injections if i.get('done')]
            if w.clock.tripped:
                # a blocked loop is C05's subject -- unless the daemon blocked BECAUSE the stop left a survivor it never SIGKILLed
                # (no other termination of these workers is in flight when `when` is 0)
                never_killed = [p for p in started if k.procs[p].state == 'alive' and
                                not [s_ for s_ in k.signal_log if s_['pid'] == p and s_['sig'] == 9]]
                if when == 0 and never_killed and req_kind in (REQ_STOP, REQ_RESTART, REQ_RM, REQ_QUIT) and S.get('killfail') is None:
                    rt.note('the %s blocked the daemon waiting for worker(s) %r which it signalled but never SIGKILLed', req_kind, never_killed)
                    return rt.verdict(False)
                return rt.skip()
            if S.get('killfail') is not None and req_kind == REQ_STOP and req.status != 'ok':
                # the first stop was cut short by the failing signal delivery: a second stop request has to finish the job
                k.kill_errors.clear()
                w.quiesce()
                req = w.send('stop', name='a', waiting=True, match='simple')
                w.run_until(lambda: bool(req.replies), max_time=60.0)
            if req_kind != REQ_QUIT and req.status != 'ok':
                return rt.skip()            # refused (conflict): nothing is claimed
            started |= set(p['pid'] for p in k.spawn_log if p['tag'] == 'a' and p['t'] < req.t_sent)
            ok = True
            left_alive = [p for p in started if k.procs[p].state == 'alive']
            left_zombie = [p for p in started if k.procs[p].state == 'zombie']
            if req_kind == REQ_RM_NOSTOP:
                # negative control: the workers must still be there
                return rt.verdict(bool(left_alive) or S.get('dmax', 0) > 0)
            if left_alive or left_zombie:
                rt.note('after the %s request completed: alive=%r zombie=%r', req_kind, left_alive, left_zombie)
                ok = False
            if req_kind == REQ_STOP:
                r = w.call('status', name='a')
                n = w.call('numprocesses', name='a')
                if r.reply.get('status') != 'stopped' or n.reply.get('numprocesses') != 0:
                    rt.note('status=%r numprocesses=%r', r.reply, n.reply)
                    ok = False
            if req_kind == REQ_QUIT:
                for tag in ('a', 'b', 'b2', 'c'):
                    if k.workers(tag):
                        rt.note('quit left workers of %s: %r', tag, [p.pid for p in k.workers(tag)])
                        ok = False
                return rt.verdict(ok)
            if req_kind == REQ_RESTART:
                # negative control: restart does start workers again, all of them new
                w.quiesce()
                fresh = k.alive_pids('a')
                respawned = [p for p in k.spawn_log if p['tag'] == 'a' and p['t'] >= req.t_sent]
                if wa.is_active() and (len(respawned) < wa.numprocesses or set(fresh) & started):
                    rt.note('after restart live=%r old=%r respawned=%r', fresh, sorted(started), len(respawned))
                    ok = False
                return rt.verdict(ok)
            if req_kind == REQ_RM:
                ls = w.call('list')
                if 'a' in ls.reply.get('watchers', []):
                    ok = False
                return rt.verdict(ok)
            # stopped stays stopped
            n_spawn = len([p for p in k.spawn_log if p['tag'] == 'a'])
            if S.get('K', 1) >= 1:
                _follow(w, sc, FOLLOW[f1], p1)
                w.run_for(0.3)
            if S.get('K', 1) >= 2:
                _follow(w, sc, FOLLOW[f2], p2)
                w.run_for(0.3)
            sc.settle(checks=2)
            if len([p for p in k.spawn_log if p['tag'] == 'a']) != n_spawn:
                rt.note('a stopped watcher started a worker after %r', sc.trace)
                ok = False
            if wa.status() != 'stopped' or wa.processes:
                rt.note('stopped watcher now %r with table %r', wa.status(), sorted(wa.processes))
                ok = False
            # negative control: start does start
            if var == 'on_demand':
                # an on_demand watcher is started by a connection, not by the request: the next periodic check after one starts it
                w.select_result = [w.arbiter.sockets['web'].fileno()]
                w.run_for(1.5)
                st = w.call('status', name='a')
            else:
                st = w.call('start', name='a', waiting=True, match='simple')
            if st.status == 'ok' and wa.numprocesses > 0 and not k.alive_pids('a'):
                rt.note('start after stop started nothing')
                ok = False
            return rt.verdict(ok)
        except (scen.Diverged, scen.BlockedLoop):
            return rt.skip()


def _canary_no_reap():
    """_stop forgets the final reap pass: a worker that died just before the stop stays a zombie"""
    import circus.watcher as cw
    orig = cw.Watcher._stop
    from tornado import gen

    @gen.coroutine
    def _stop(self, close_output_streams=False):
        if self.is_stopped():
            return
        self._status = "stopping"
        self.call_hook('before_stop')
        yield self.kill_processes()
        if self.stream_redirector:
            self.stream_redirector.stop()
            self.stream_redirector = None
        if self.evpub_socket is not None:
            self.notify_event("stop", {"time": cw.time.time()})
        self._status = "stopped"
        self.call_hook('after_stop')
    cw.Watcher._stop = _stop


def _canary_do_action_reload():
    """set of a reload-class option restarts a stopped watcher"""
    import circus.watcher as cw
    from tornado import gen
    from circus import util

    @util.synchronized("watcher_do_action")
    @gen.coroutine
    def do_action(self, num):
        if num == 0:
            yield self.manage_processes()
        else:
            yield self._reload()
    cw.Watcher.do_action = do_action


def _canary_spawn_when_stopped():
    """spawn_process loses its is_stopped() guard"""
    import circus.watcher as cw
    orig = cw.Watcher.manage_processes
    from tornado import gen

    @gen.coroutine
    def manage_processes(self):
        if len(self.processes) < self.numprocesses and not self.is_stopping():
            self._status = 'active' if self._status == 'stopped' and self.numprocesses > 1 else self._status
        yield orig(self)
    cw.Watcher.manage_processes = manage_processes


CANARIES = {
    'stop_without_reap': {'apply': _canary_no_reap, 'conds': ['c02_stop'],
                          'shards': [{'req': REQ_STOP, 'n0': 2, 'beh': 0, 'dmax': 14, 'K': 0}],
                          'what': '_stop without the final reap_processes()'},
    'incr_restarts_stopped': {'apply': _canary_spawn_when_stopped, 'conds': ['c02_stop'],
                              'shards': [{'req': REQ_STOP, 'n0': 1, 'beh': 0, 'K': 1}],
                              'what': 'manage_processes re-activates a stopped watcher when numprocesses > 1'},
}


def c02_socket_event(ph: int, nb: int, ticks: int) -> bool:
    """
    Stopped stays stopped, socket events included: a connection on a managed socket starts the on_demand watcher that waits for it,
    never a watcher the operator has stopped (on_demand or not) -- and only the former counts as 'a socket event for an on-demand watcher'.

    ph: 0 = b stopped before a's first connection; 1 = b stopped, then a's only worker dies and a second connection arrives;
        2 = BOTH stopped by request (a is on_demand: the connection may start a again, never b)
    pre: 0 <= ph <= 2 and 1 <= nb <= 2 and 1 <= ticks <= 3
    post: _
    """
    ph = rt.pick(ph, 3)
    nb = rt.pick(nb, 3)
    ticks = rt.pick(ticks, 4)
    from circus.sockets import CircusSocket
    with World() as w:
        k = w.kernel
        k.behaviour = BEHS[rt.S.get('beh', 0)]
        wa = w.mk_watcher('a', numprocesses=1, graceful_timeout=0.2, on_demand=True, use_sockets=True)
        wb = w.mk_watcher('b', numprocesses=nb, graceful_timeout=0.2)
        order = [wb, wa] if rt.S.get('b_first') else [wa, wb]
        try:
            w.boot(order, check_delay=1.0, sockets=[CircusSocket(name='web', host='127.0.0.1', port=0)])
            fd = w.arbiter.sockets['web'].fileno()
            if ph == 1:
                w.select_result = [fd]
                w.run_for(1.2)
                w.select_result = []
            r = w.call('stop', name='b', waiting=True, match='simple', max_time=20.0)
            if ph == 2:
                w.call('stop', name='a', waiting=True, match='simple', max_time=20.0)
            if r.status != 'ok':
                return rt.skip()
            if ph == 1:
                if not k.alive_pids('a'):
                    rt.note('the first connection did not start the on_demand watcher (status %r)', wa.status())
                    return rt.verdict(False)
                k.external_kill(k.alive_pids('a')[0])
                w.run_for(1.2)                      # reaped; a waits for its next connection
            n_b = len([p for p in k.spawn_log if p['tag'] == 'b'])
            n_a = len([p for p in k.spawn_log if p['tag'] == 'a'])
            w.select_result = [fd]
            w.run_for(1.0 * ticks + 0.2)
            if w.clock.tripped:
                return rt.skip()
            ok = True
            if len([p for p in k.spawn_log if p['tag'] == 'b']) != n_b or wb.status() != 'stopped' or k.alive_pids('b'):
                rt.note('a connection for the on_demand watcher started the stopped watcher b: status %r, live %r', wb.status(), k.alive_pids('b'))
                ok = False
            if len([p for p in k.spawn_log if p['tag'] == 'a']) == n_a or not k.alive_pids('a'):
                rt.note('the connection did not start the on_demand watcher (status %r)', wa.status())
                ok = False
            return rt.verdict(ok)
        except (scen.Diverged, scen.BlockedLoop):
            return rt.skip()


def plan(tier):
    q = tier == 'quick'
    sh = []
    behs = (0, 2, 3) if q else (0, 1, 2, 3, 4)
    for req in (REQ_STOP, REQ_RESTART, REQ_RM, REQ_QUIT):
        for beh in behs:
            sh.append({'req': req, 'n0': 2, 'beh': beh, 'dmax': 20 if q else 40, 'K': 0, 'whenmax': 1})
    if not q:
        # three workers, the death hitting any of the first two, mixed behaviours
        for req in (REQ_STOP, REQ_QUIT):
            for beh in (0, 2, 4):
                sh.append({'req': req, 'n0': 3, 'beh': beh, 'dmax': 40, 'K': 0, 'whenmax': 1})
    for beh in ((0,) if q else (0, 2)):
        sh.append({'req': REQ_STOP, 'n0': 1, 'beh': beh, 'K': 1 if q else 2, 'whenmax': 0})
    sh.append({'req': REQ_RM_NOSTOP, 'n0': 2, 'beh': 0, 'K': 0, 'whenmax': 0})
    # configuration variants and a failing signal delivery
    for req in (REQ_STOP, REQ_RESTART, REQ_QUIT):
        sh.append({'req': req, 'n0': 2, 'beh': 2, 'K': 0, 'whenmax': 1, 'var': 'gt0'})
        sh.append({'req': req, 'n0': 2, 'beh': 2, 'K': 0, 'whenmax': 1, 'var': 'max_age', 'dmax': 8})
    for beh in (0, 2):
        for ph in ('starting', 'active'):
            for req in ((REQ_STOP, REQ_QUIT) if q else (REQ_STOP, REQ_RESTART, REQ_RM, REQ_QUIT)):
                sh.append({'req': req, 'beh': beh, 'K': 1 if req == REQ_STOP else 0, 'whenmax': 0, 'dmax': 6, 'var': 'on_demand', 'od_phase': ph})
    for beh in (0, 2):
        sh.append({'req': REQ_QUIT, 'beh': beh, 'K': 0, 'whenmax': 0, 'dmax': 4, 'var': 'on_demand', 'od_phase': 'pause'})
    for kf in (0, 1, 2):
        sh.append({'req': REQ_STOP, 'n0': 2, 'beh': 0, 'K': 0, 'whenmax': 0, 'killfail': kf})
        sh.append({'req': REQ_STOP, 'n0': 2, 'beh': 2, 'K': 0, 'whenmax': 0, 'killfail': kf})
    return [
        Cond('c02_socket_event', shards=[{'beh': 0}, {'beh': 2}, {'beh': 0, 'b_first': True}], budget=120, twins=1,
             bounds={'phase': 'S{b stopped before the first connection, b stopped + second connection after the worker died, both stopped}',
                     'numprocesses of b': 'S{1,2}', 'periodic checks after the connection': 'S{1,2,3}', 'beh': 'S{obey, ignore}',
                     'order': 'S{a first, b first}'}),
        Cond('c02_stop', shards=sh, budget=150 if q else 1200, twins=3,
             bounds={'req': 'S{stop, restart, rm, quit, rm nostop (negative control)}', 'when': 'S{quiescent, kill request in flight}',
                     'd': 'R[0,dmax] kernel call of an injected SIGKILL death inside the stop sequence', 'v': 'S{0,1}',
                     'f1,f2': 'S: follow-up event from {check, incr, decr, set numprocesses, time, kill, signal, set args/env/working_dir/max_age, restart / start of the other watchers by pattern}', 'p1,p2': 'R[-1,2]',
                     'beh': 'S{obey, obey 0.15 s, ignore, obey 0.3 s (past timeout), mixed}', 'var': 'S{default, graceful_timeout 0, max_age 1 s, on_demand (stop during its background start / after one worker died)}',
                     'killfail': 'S: the n-th signal delivery of the stop fails with EPERM, then the stop is requested again', 'n0': 'S{1,2}'}),
    ]
