"""C19 -- watchers start in priority order, paced by the warm-up delays.

Real code under the solver: Arbiter.iter_watchers / start / start_watchers / _start_watchers / restart /
_stop_watchers, Watcher._start / spawn_processes / spawn_process, the start / restart commands (glob matching),
util.synchronized (the periodic check is kept out during startup).  World: vtlib.world.
"""
from vtlib import rt
from vtlib.driver import Cond
from vtlib.harness import scen
from vtlib.harness.scen import World, Beh
from vtlib.world import core

PROPERTY = 'C19'
TITLE = 'Watchers start in priority order, paced by the warmup delays'
FUNCTIONS = ['circus/arbiter.py:Arbiter.iter_watchers', 'circus/arbiter.py:Arbiter._start_watchers', 'circus/arbiter.py:Arbiter.start_watchers',
             'circus/arbiter.py:Arbiter.start', 'circus/arbiter.py:Arbiter.restart', 'circus/watcher.py:Watcher.spawn_processes',
             'circus/watcher.py:Watcher._start', 'circus/commands/restart.py:execute_watcher_start_stop_restart']
ASSUMPTIONS = [
    'simulated kernel / clock as in C01: a spawn takes 1 ms; an after_spawn hook may take `hookcost` seconds of (virtual) time',
    'priorities are unbounded symbolic integers (ties included); warm-up delays come from a small menu',
    'the periodic check runs every 0.2 s, i.e. several times inside the startup sequence',
]
EXPLANATION = ('C19: three watchers with arbitrary integer priorities, numprocesses in {1,2,3}, per-watcher warm-up in {0, 0.2, 0.5}, global warm-up in '
               '{0, 0.3}, autostart flags, triggers {daemon start, start all, restart all, start/restart by glob}, an optional slow after_spawn hook and '
               'one worker death injected during the sequence; oracle on the kernel spawn log. ')

WARM = (0, 0.2, 0.5)
TRIGGERS = ('boot', 'start_all', 'restart_all', 'start_glob', 'restart_glob')
EPS = 1e-6


def c19_order(p1: int, p2: int, p3: int, w1: int, w2: int, n1: int, n2: int, au: int, d: int) -> bool:
    """
    pre: 0 <= w1 <= 2 and 0 <= w2 <= 2 and 1 <= n1 <= 3 and 1 <= n2 <= 2 and 0 <= au <= 3
    pre: rt.S.get('full', False) or rt.S.get('pace', False) or (w1 != 1 and w2 == 1 and n1 <= 2 and n2 == 1 and au <= 1)
    pre: not rt.S.get('pace', False) or (n1 == 3 and w1 >= 1 and n2 == 1 and au == 0)
    pre: rt.S.get('dmin', 0) <= d <= rt.S.get('dmax', 0)
    post: _
    """
    S = rt.S
    w1 = rt.pick(w1, 3)
    w2 = rt.pick(w2, 3)
    n1 = rt.pick(n1, 4)
    n2 = rt.pick(n2, 3)
    au = rt.pick(au, 4)
    gw = S.get('gw', 0.3)
    trig = S.get('trig', 'boot')
    hookcost = S.get('hookcost', 0)
    with World() as w:
        k = w.kernel
        k.behaviour = lambda i, argv: Beh(obey=0.0)
        hooks = None
        failing = None
        if S.get('hookfail'):
            # the after_spawn hook of the FIRST-started watcher rejects its worker: that watcher's start is aborted without its own
            # warm-up sleep; the next watcher must still wait the global warm-up
            def rejecting(watcher=None, arbiter=None, hook_name=None, **kw):
                return watcher.name != failing
        if hookcost:
            def slow_after_spawn(watcher=None, arbiter=None, hook_name=None, **kw):
                w.clock.now += hookcost
                return True
            hooks = {'after_spawn': (slow_after_spawn, False)}
        names = ['wa', 'wb', 'wc']
        prios = {'wa': p1, 'wb': p2, 'wc': p3}
        warm = {'wa': WARM[w1], 'wb': WARM[w2], 'wc': 0}
        nump = {'wa': n1, 'wb': n2, 'wc': 1}
        auto = {'wa': True, 'wb': au != 1, 'wc': au != 2}
        if S.get('hookfail'):
            ranked = sorted([nm for nm in names if auto[nm]], key=lambda nm: -prios[nm])
            # (ties: any of the tied watchers may be first; the check then only needs SOME watcher to fail first -- pick a strict maximum)
            if len(ranked) >= 2 and prios[ranked[0]] > prios[ranked[1]]:
                failing = ranked[0]
            hooks = {'after_spawn': (rejecting, False)}
        ws = [w.mk_watcher(nm, numprocesses=nump[nm], warmup_delay=warm[nm], priority=prios[nm], autostart=auto[nm],
                           graceful_timeout=0.2, hooks=hooks) for nm in names]
        try:
            victim = ('newest', 0) if S.get('victim') == 'newest' else ('nth', 0)
            if S.get('dmax', 0) > 0 and d > 0 and trig == 'boot':
                k.injections.append({'at_call': d, 'victim': victim, 'status': core.status_signal(9)})
            if trig == 'boot':
                t_begin = w.clock.now
                w.mk_arbiter(ws, check_delay=0.2, warmup_delay=gw)
                fut = w.arbiter.start()
                w.run_future(fut, max_time=60.0)
                started = [nm for nm in names if auto[nm]]
            else:
                w.boot(ws, check_delay=0.2, warmup_delay=gw)
                k.injections = [i for i in k.injections if i.get('done')]
                if trig in ('start_all', 'start_glob'):
                    w.call('stop', waiting=True, max_time=30.0)
                w.run_for(0.05)
                t_begin = w.clock.now
                if S.get('dmax', 0) > 0 and d > 0:
                    k.injections.append({'at_call': k.calls + d, 'victim': victim, 'status': core.status_signal(9)})
                if trig == 'start_all':
                    r = w.call('start', waiting=True, max_time=60.0)
                    started = [nm for nm in names if auto[nm]]
                elif trig == 'restart_all':
                    r = w.call('restart', name='*', waiting=True, max_time=60.0)
                    started = [nm for nm in names if auto[nm]]
                elif trig == 'start_glob':
                    r = w.call('start', name='w[ab]', waiting=True, max_time=60.0)
                    started = [nm for nm in ('wa', 'wb') if auto[nm]]
                else:
                    r = w.call('restart', name='w[ab]', waiting=True, max_time=60.0)
                    started = [nm for nm in ('wa', 'wb') if auto[nm]]
                if r.status != 'ok':
                    rt.note('%s refused: %r', trig, r.reply)
                    return rt.verdict(False)
            t_end = w.clock.now
            if w.clock.tripped:
                return rt.skip()
            log = [s for s in k.spawn_log if t_begin - EPS <= s['t'] <= t_end + EPS]
            ok = True
            # autostart false => nothing of that watcher is started by the sequence
            for s in log:
                if s['tag'] not in started:
                    rt.note('watcher %s (autostart off / not addressed) was started by %s', s['tag'], trig)
                    ok = False
            # blocks: all spawns of one watcher are contiguous, blocks in non-increasing priority
            order = []
            for s in log:
                if not order or order[-1] != s['tag']:
                    order.append(s['tag'])
            if len(order) != len(set(order)):
                rt.note('spawns of different watchers interleave: %r', [(s['tag'], round(s['t'] - t_begin, 3)) for s in log])
                ok = False
            for a_, b_ in zip(order, order[1:]):
                if prios[a_] < prios[b_]:
                    rt.note('watcher %s (priority lower) started before %s', a_, b_)
                    ok = False
            if sorted(order) != sorted(started):
                had_death = any(i.get('hit') for i in k.injections)
                if not had_death:
                    rt.note('started %r, expected %r', order, started)
                    ok = False
            # pacing inside a watcher and between watchers
            for nm in set(order):
                ts = [s['t'] for s in log if s['tag'] == nm]
                if len(ts) > nump[nm] and not any(i.get('hit') for i in k.injections):
                    rt.note('watcher %s: %d spawns for numprocesses %d', nm, len(ts), nump[nm])
                    ok = False
                for x, y in zip(ts, ts[1:]):
                    if y - x < warm[nm] - EPS:
                        rt.note('watcher %s: consecutive spawns %.4f s apart, warmup_delay %.2f', nm, y - x, warm[nm])
                        ok = False
            if S.get('dmax', 0) > 0:
                # the aftermath of the sequence belongs to it: a worker that died during the startup is replaced by the first
                # periodic check after it -- still no sooner than warmup_delay after the watcher's previous spawn
                w.run_for(1.3)
                if w.clock.tripped:
                    return rt.skip()
                full = [s for s in k.spawn_log if s['t'] >= t_begin - EPS]
                for nm in names:
                    ts = [s['t'] for s in full if s['tag'] == nm]
                    for x, y in zip(ts, ts[1:]):
                        if y - x < warm[nm] - EPS:
                            rt.note('watcher %s: a replacement was spawned %.4f s after the previous spawn, warmup_delay %.2f', nm, y - x, warm[nm])
                            ok = False
            for a_, b_ in zip(order, order[1:]):
                last_a = max(s['t'] for s in log if s['tag'] == a_)
                first_b = min(s['t'] for s in log if s['tag'] == b_)
                if first_b - last_a < gw - EPS:
                    rt.note('watchers %s and %s started %.4f s apart, global warmup_delay %.2f', a_, b_, first_b - last_a, gw)
                    ok = False
            return rt.verdict(ok)
        except (scen.Diverged, scen.BlockedLoop):
            return rt.skip()


def _canary_ascending():
    import circus.arbiter as ca
    ca.Arbiter.iter_watchers = lambda self, reverse=True: sorted(self.watchers, key=lambda a: a.priority, reverse=not reverse)


def _canary_unsync_start():
    """the initial start does not hold the exclusive slot: periodic checks interleave with the warm-up pacing"""
    import circus.arbiter as ca
    ca.Arbiter.start_watchers = ca.Arbiter._start_watchers


def _canary_cumulative_delay():
    """the time already spent is deducted cumulatively from the warm-up delay"""
    import circus.watcher as cw
    from tornado import gen

    @gen.coroutine
    def spawn_processes(self):
        if self.pending_socket_event:
            self._status = "stopped"
            return
        for i in self._found_wids:
            self.spawn_process(i)
            yield cw.tornado_sleep(0)
        self._found_wids = {}
        delay = self.warmup_delay
        for i in range(self.numprocesses - len(self.processes)):
            res = self.spawn_process()
            if res is False:
                yield self._stop()
                break
            if isinstance(res, float):
                delay = max(delay - (cw.time.time() - res), 0)
            yield cw.tornado_sleep(delay)
    cw.Watcher.spawn_processes = spawn_processes


CANARIES = {
    'ascending_priority': {'apply': _canary_ascending, 'conds': ['c19_order'], 'shards': [{'trig': 'boot', 'gw': 0.3}],
                           'what': 'iter_watchers sorts ascending'},
    'startup_without_the_slot': {'apply': _canary_unsync_start, 'conds': ['c19_order'], 'shards': [{'trig': 'boot', 'gw': 0.3}],
                                 'what': 'Arbiter.start calls _start_watchers directly (periodic checks interleave)'},
    'warmup_deducted_cumulatively': {'apply': _canary_cumulative_delay, 'conds': ['c19_order'],
                                     'shards': [{'trig': 'boot', 'gw': 0, 'hookcost': 0.15, 'pace': True}],
                                     'what': 'spawn_processes shrinks the delay across iterations'},
}


def plan(tier):
    q = tier == 'quick'
    sh = []
    for trig in TRIGGERS:
        sh.append({'trig': trig, 'gw': 0.3})
        if not q:
            sh.append({'trig': trig, 'gw': 0.3, 'full': True})
            sh.append({'trig': trig, 'gw': 0, 'full': True})
            sh.append({'trig': trig, 'gw': 0.3, 'dmax': 20})
            sh.append({'trig': trig, 'gw': 0, 'dmax': 20})
            sh.append({'trig': trig, 'gw': 0, 'dmax': 20, 'victim': 'newest'})
    sh.append({'trig': 'boot', 'gw': 0, 'hookcost': 0.15, 'pace': True})
    sh.append({'trig': 'boot', 'gw': 0.3, 'hookfail': True})
    if not q:
        sh.append({'trig': 'start_all', 'gw': 0.3, 'hookfail': True, 'full': True})
    if q:
        # (d split in two halves per configuration: twice the parallelism, same coverage)
        for lo, hi in ((0, 6), (7, 12)):
            sh.append({'trig': 'boot', 'gw': 0.3, 'dmin': lo, 'dmax': hi})
            sh.append({'trig': 'boot', 'gw': 0, 'dmin': lo, 'dmax': hi, 'victim': 'newest'})
        sh.append({'trig': 'start_all', 'gw': 0, 'dmin': 0, 'dmax': 6})
        sh.append({'trig': 'start_all', 'gw': 0, 'dmin': 7, 'dmax': 12})
    return [
        Cond('c19_order', shards=sh, budget=300 if q else 2400, twins=2,
             bounds={'p1,p2,p3': 'R: all integers (ties included)', 'w1,w2': 'S: warm-up %r' % (WARM,), 'n1': 'S[1,3]', 'n2': 'S[1,2]',
                     'au': 'S: which watcher has autostart off', 'trigger': 'S%r' % (TRIGGERS,), 'hookfail': 'S: the after_spawn hook of the first-started watcher rejects its worker', 'global warm-up': 'S{0, 0.3}',
                     'd': 'R[0,dmax] kernel call (of the sequence) at which the oldest / the newest live worker dies',
                     'quick': 'w1 in {0,0.5}, w2 = 0.2, n1 <= 2, n2 = 1, autostart off for at most wb; thorough: the full menus'}),
    ]
