"""C09 -- published events let a subscriber reconstruct the live process set.

Real code under the solver: Watcher.notify_event, spawn_process, reap_process (wait-status decoding),
kill_process, send_signal_process, _start, _stop, manage_processes, Arbiter.reap_processes /
manage_watchers, the commands that re-evaluate the process set.  World: vtlib.world; the PUB socket is
captured, wait statuses are decoded by pure-Python W* macros so that a 16-bit status can be symbolic.
"""
from vtlib import rt
from vtlib.driver import Cond
from vtlib.harness import scen
from vtlib.harness.scen import World, Beh, Sched
from vtlib.world import core

PROPERTY = 'C09'
TITLE = 'Published events let a subscriber reconstruct the live process set'
FUNCTIONS = ['circus/watcher.py:Watcher.notify_event', 'circus/watcher.py:Watcher.spawn_process',
             'circus/watcher.py:Watcher.reap_process', 'circus/watcher.py:Watcher.kill_process',
             'circus/watcher.py:Watcher.send_signal_process', 'circus/watcher.py:Watcher._start',
             'circus/watcher.py:Watcher._stop', 'circus/watcher.py:Watcher.manage_processes',
             'circus/arbiter.py:Arbiter.reap_processes']
ASSUMPTIONS = [
    'simulated kernel / clock / zmq as in C01; the PUB socket never fails',
    'wait statuses are 16-bit values decoded by pure-Python WIFSIGNALED/WTERMSIG/WIFEXITED/WEXITSTATUS (glibc definitions; '
    'cross-checked against the real os macros by the lemma c09_wait_macros)',
    'a worker whose pid is reaped by subprocess.poll() reports Popen.returncode (subprocess semantics)',
]
EXPLANATION = ('C09: the event stream of bounded histories (K<=2 events + a worker death with a SYMBOLIC wait status placed at any kernel call) '
               'is replayed by an independent subscriber model and compared with kernel ground truth. ')

BEHS = {0: lambda i, argv: Beh(obey=0.0), 2: lambda i, argv: Beh(obey=None), 1: lambda i, argv: Beh(obey=0.15),
        # workers that handle SIGUSR1 without exiting (and have a child): what a `signal` request is normally sent to
        3: lambda i, argv: Beh(obey=0.0, ignore=(10,), nchildren=1, child_obey=0.0)}


def _subscriber(events):
    """independent model of a subscriber: pid -> state from the event stream"""
    spawned = {}
    gone = set()
    reaps = {}
    problems = []
    for (t, topic, o) in events:
        kind = topic.rsplit('.', 1)[1]
        if kind == 'spawn':
            pid = o['process_pid']
            if pid in spawned:
                problems.append('second spawn event for %r' % pid)
            spawned[pid] = t
        elif kind == 'reap':
            pid = o['process_pid']
            reaps.setdefault(pid, []).append(o)
            if pid not in spawned:
                problems.append('reap before any spawn event for %r' % pid)
            if len(reaps[pid]) > 1:
                problems.append('more than one reap event for %r' % pid)
            gone.add(pid)
        elif kind == 'kill':
            gone.add(o['process_pid'])
    return spawned, gone, reaps, problems


def c09_events(e1: int, p1: int, g1: int, d: int, v: int, kind: int, code: int, sig: int, e2: int, p2: int) -> bool:
    """
    pre: e1 == rt.S['e1'] and (0 <= e2 <= 12 or e2 == 14)
    pre: rt.S.get('pmin', -1) <= p1 <= rt.S.get('pmax', 2) and rt.S.get('pmin', -1) <= p2 <= rt.S.get('pmax', 2)
    pre: g1 in (0, 1, 3)
    pre: 0 <= d <= rt.S.get('dmax', 0) and 0 <= v <= 1
    pre: 0 <= kind <= 2 and 0 <= code <= 255 and 1 <= sig <= 64
    pre: (kind == 0 and sig == 1) or (kind != 0 and code == 0)
    pre: rt.S.get('K', 1) >= 2 or (e2 == 0 and p2 == 0)
    post: _
    """
    S = rt.S
    with World() as w:
        k = w.kernel
        var = S.get('var', 'default')
        k.behaviour = (lambda i, argv: Beh(obey=0.0, ignore=(1,))) if var == 'send_hup' else BEHS[S.get('beh', 0)]
        if var == 'on_demand':
            # started by the first connection on a managed socket; afterwards no connection is pending
            from circus.sockets import CircusSocket
            wa = w.mk_watcher('a', numprocesses=S.get('n0', 2), graceful_timeout=0.2, on_demand=True, use_sockets=True)
            w.boot([wa], check_delay=1.0, sockets=[CircusSocket(name='web', host='127.0.0.1', port=0)])
            w.select_result = [w.arbiter.sockets['web'].fileno()]
            w.run_for(1.2)
            w.select_result = []
        else:
            wa = w.mk_watcher('a', **scen.variant(var, numprocesses=S.get('n0', 2), graceful_timeout=0.2))
            w.boot([wa], check_delay=-1 if var == 'max_age' else 1.0)
        if var == 'max_age':
            w.run_for(1.2)              # the workers are past max_age; no periodic check runs by itself in this variant
        # the injected death carries an arbitrary wait status: exit code 0..255, or a terminating signal 1..64
        # with or without the core-dump flag (arithmetic, no bit operations: the status stays symbolic)
        if kind == 0:
            st = code * 256
            want = code
        else:
            st = sig + (128 if kind == 2 else 0)
            want = -sig
        if S.get('dmax', 0) > 0 and d > 0:
            k.injections.append({'at_call': k.calls + d, 'victim': ('nth', v), 'status': st})
        sc = Sched(w)
        try:
            sc.gap(g1)
            sc.apply(e1, p1)
            if S.get('K', 1) >= 2:
                sc.gap(3)
                sc.apply(e2, p2)
            if var == 'max_age':
                w.quiesce()
                w.check_now()
                k.injections = [i for i in k.injections if i.get('done')]
                wa.max_age = 0          # stop the churn so that the stream can be judged at rest
                w.run_for(0.5)
                w.check_now()
                w.run_for(0.5)
                w.check_now()
            else:
                sc.settle(checks=1)
                k.injections = [i for i in k.injections if i.get('done')]     # a death may also land in the first check after the events
                sc.settle(checks=2)
            if w.clock.tripped:
                return rt.skip()
            spawned, gone, reaps, problems = _subscriber(w.events)
            ok = True
            for pr in problems:
                rt.note('%s', pr)
                ok = False
            believed = sorted(p for p in spawned if p not in gone)
            alive = k.alive_pids('a')
            if believed != alive:
                rt.note('subscriber believes %r alive, kernel says %r', believed, alive)
                ok = False
            # every adopted pid has exactly one spawn event
            for rec in k.spawn_log:
                if rec['tag'] == 'a' and rec['pid'] not in spawned:
                    rt.note('worker %r was never announced', rec['pid'])
                    ok = False
            # a worker that died by itself / from outside while the watcher was active: reap event with its status
            for inj in k.injections:
                pid = inj.get('hit')
                if pid is None:
                    continue
                stopped_meanwhile = any(e in (scen.EV_STOP, scen.EV_RESTART, scen.EV_RELOAD_TERM) for e, _r in sc.reqs)
                # the supervisor itself was terminating it (not a death "from outside"): it was signalled while alive, or it died
                # INSIDE the very operation that signalled it (a race the daemon cannot see).  A worker that was already dead when
                # the operation began is the daemon's to reap -- every operation that re-evaluates the process set looks for the dead first.
                def _excused(s):
                    if s['target'] == 'alive':
                        return True
                    begun = [c for c in sc.op_calls if c <= s['call']]
                    return bool(begun) and inj.get('hit_call', 0) > begun[-1]
                signalled = [s for s in k.signal_log if s['pid'] == pid and s['sig'] != 0 and _excused(s)]
                if stopped_meanwhile or signalled:
                    continue
                rs = reaps.get(pid, [])
                if not rs:
                    if rt.finding_listed('c09.dead_worker_dropped_without_reap_event'):
                        continue
                    rt.note('worker %r died with status %r while the watcher was active: no reap event', pid, st)
                    ok = False
                elif rs[0].get('exit_code') != want:
                    if rs[0].get('exit_code') is None or k.procs[pid].reaped_by == 'poll':
                        if rt.finding_listed('c09.dead_worker_dropped_without_reap_event'):
                            continue
                    rt.note('reap event of %r carries exit_code %r, wait status %r means %r', pid, rs[0].get('exit_code'), st, want)
                    ok = False
            # the same for deaths that are EVENTS of the history (self-exit / external kill placed between requests)
            stopped_meanwhile = any(e in (scen.EV_STOP, scen.EV_RESTART, scen.EV_RELOAD_TERM) for e, _r in sc.reqs)
            for kp in k.procs.values():
                if kp.tag != 'a' or kp.death_how not in ('self-exit', 'external') or stopped_meanwhile:
                    continue
                def _excused2(s):
                    if s['target'] == 'alive':
                        return True
                    begun = [c for c in sc.op_calls if c <= s['call']]
                    return bool(begun) and kp.death_call > begun[-1]
                if [s for s in k.signal_log if s['pid'] == kp.pid and s['sig'] != 0 and _excused2(s)]:
                    continue
                want2 = (kp.status // 256) if kp.status % 128 == 0 else -(kp.status % 128)
                rs = reaps.get(kp.pid, [])
                if not rs:
                    rt.note('worker %r died by itself (wait status %r) while the watcher was active: no reap event', kp.pid, kp.status)
                    ok = False
                elif rs[0].get('exit_code') != want2:
                    rt.note('reap event of %r carries exit_code %r, wait status %r means %r', kp.pid, rs[0].get('exit_code'), kp.status, want2)
                    ok = False
            # start / stop events agree with the reported status
            last = None
            for (t, topic, o) in w.events:
                kind = topic.rsplit('.', 1)[1]
                if kind in ('start', 'stop'):
                    last = kind
            rep = w.call('status', name='a').reply.get('status')
            if (last == 'start' and rep != 'active') or (last == 'stop' and rep != 'stopped'):
                rt.note('last lifecycle event %r but status %r', last, rep)
                ok = False
            return rt.verdict(ok)
        except (scen.Diverged, scen.BlockedLoop):
            return rt.skip()


def _lemma_macros(tier):
    """the pure-Python W* macros used by the world agree with the C library's on all 65536 statuses that
    matter (bit-vector identities, checked by z3 against the glibc definitions and by evaluation against os.*)"""
    import os
    import time
    import z3
    t0 = time.perf_counter()
    st = z3.BitVec('st', 16)
    low = st & 0x7f
    # glibc: WIFEXITED = (st & 0x7f) == 0 ; WIFSIGNALED = ((signed char)((st & 0x7f) + 1) >> 1) > 0 ;
    #        WTERMSIG = st & 0x7f ; WEXITSTATUS = (st & 0xff00) >> 8
    sc = z3.Extract(7, 0, low + 1)
    glibc_signaled = z3.If(sc >> 1 != 0, z3.BoolVal(True), z3.BoolVal(False))
    glibc_signaled = z3.And((z3.Extract(7, 0, low + 1) & 0x80) == 0, z3.LShR(z3.Extract(7, 0, low + 1), 1) != 0)
    mine_signaled = z3.And(low != 0, low != 0x7f)
    queries = [('WIFSIGNALED', glibc_signaled != mine_signaled),
               ('WEXITSTATUS', z3.LShR(st & 0xff00, 8) != (z3.LShR(st, 8) & 0xff)),
               ('WIFEXITED/WIFSIGNALED exclusive', z3.And(low == 0, mine_signaled))]
    n = 0
    bad = None
    for name, q in queries:
        s = z3.Solver()
        s.add(q)
        n += 1
        if str(s.check()) != 'unsat':
            bad = name
    # evaluation against the interpreter's own macros
    mism = 0
    for x in range(65536):
        if os.WIFSIGNALED(x) != core.WIFSIGNALED(x) or os.WIFEXITED(x) != core.WIFEXITED(x) \
                or (os.WIFEXITED(x) and os.WEXITSTATUS(x) != core.WEXITSTATUS(x)) \
                or (os.WIFSIGNALED(x) and os.WTERMSIG(x) != core.WTERMSIG(x)):
            mism += 1
    return {'name': 'c09_wait_macros', 'status': 'holds' if (bad is None and mism == 0) else 'error',
            'queries': n, 'solver_s': round(time.perf_counter() - t0, 3),
            'detail': 'stub macros vs glibc: %s; vs os.* on 65536 statuses: %d mismatches' % (bad or 'equal', mism)}


LEMMAS = [_lemma_macros]


def _canary_lowbyte():
    """exit_code decoded from the low byte (core-dump flag leaks into the signal number)"""
    import circus.watcher as cw

    class _OS(object):
        def __getattr__(s, n):
            return getattr(cw.os, n) if n != '_real' else object.__getattribute__(s, n)

    real_wtermsig = core.WTERMSIG
    from vtlib.world import world as wm
    orig_install = wm.World.install

    def install(self):
        r = orig_install(self)
        self.fos.WTERMSIG = lambda st: st % 256
        return r
    wm.World.install = install


def _canary_double_spawn_event():
    import circus.watcher as cw
    orig = cw.Watcher.notify_event

    def notify_event(self, topic, msg):
        orig(self, topic, msg)
        if topic == 'spawn' and len(self.processes) >= 3:
            orig(self, topic, msg)
    cw.Watcher.notify_event = notify_event


CANARIES = {
    'reap_code_low_byte': {'apply': _canary_lowbyte, 'conds': ['c09_events'],
                           'shards': [{'e1': scen.EV_TIME, 'K': 1, 'n0': 2, 'dmax': 6}],
                           'what': 'reap exit_code = -(status & 0xff): wrong for core-dumping signals'},
    'spawn_announced_twice': {'apply': _canary_double_spawn_event, 'conds': ['c09_events'],
                              'shards': [{'e1': scen.EV_INCR, 'K': 1, 'n0': 2}],
                              'what': 'a spawn event is published twice once three workers exist'},
}

KNOWN = []


def plan(tier):
    q = tier == 'quick'
    evs = [scen.EV_CHECK, scen.EV_EXIT, scen.EV_XKILL, scen.EV_INCR, scen.EV_DECR, scen.EV_SETNP, scen.EV_RESTART,
           scen.EV_RELOAD, scen.EV_RELOAD_SEQ, scen.EV_RELOAD_TERM, scen.EV_TIME, scen.EV_STOP, scen.EV_START]
    sh = []
    for e in evs:
        sh.append({'e1': e, 'K': 1, 'n0': 2, 'beh': 0, 'dmax': 10 if q else 30})
        if not q:
            sh.append({'e1': e, 'K': 2, 'n0': 2, 'beh': 0, 'dmax': 10})
            sh.append({'e1': e, 'K': 1, 'n0': 2, 'beh': 2, 'dmax': 30})
    if q:
        for e in (scen.EV_INCR, scen.EV_STOP, scen.EV_RELOAD):
            sh.append({'e1': e, 'K': 2, 'n0': 1, 'beh': 0, 'pmin': 0, 'pmax': 1})
    for e in (scen.EV_RELOAD, scen.EV_RELOAD_SEQ, scen.EV_INCR):
        sh.append({'e1': e, 'K': 1, 'n0': 2, 'beh': 0, 'var': 'send_hup', 'dmax': 6})
    for e in (scen.EV_INCR, scen.EV_DECR, scen.EV_SETNP, scen.EV_RELOAD, scen.EV_CHECK):
        sh.append({'e1': e, 'K': 1, 'n0': 2, 'beh': 0, 'var': 'max_age', 'dmax': 8})
    if q:
        # workers that ignore the stop signal (graceful_timeout 0.2 s is reached exactly by the 0.1 s polling steps)
        for e in (scen.EV_DECR, scen.EV_SETNP, scen.EV_RELOAD):
            sh.append({'e1': e, 'K': 1, 'n0': 2, 'beh': 2, 'dmax': 4})
    # a signal request (plain / recursive / children / one pid) to workers that survive it: no spawn, reap or kill event is due
    sh.append(dict({'e1': scen.EV_SIGNALCMD, 'K': 2 if q else 3, 'n0': 2, 'beh': 3}, **({'pmin': 0, 'pmax': 1} if q else {})))
    sh.append({'e1': scen.EV_SIGNALCMD, 'K': 1, 'n0': 2, 'beh': 3, 'dmax': 8})
    for e in (scen.EV_EXIT, scen.EV_XKILL, scen.EV_INCR, scen.EV_STOP):
        sh.append(dict({'e1': e, 'K': 2, 'n0': 1, 'beh': 0, 'var': 'on_demand'}, **({'pmin': 0, 'pmax': 1} if q else {})))
        sh.append({'e1': e, 'K': 1, 'n0': 2, 'beh': 0, 'var': 'on_demand', 'dmax': 6})
    for e in (scen.EV_EXIT, scen.EV_XKILL):
        # the worker is dead (and past max_age) BEFORE the next request looks at the process set
        sh.append(dict({'e1': e, 'K': 2, 'n0': 2, 'beh': 0, 'var': 'max_age'}, **({'pmin': 0, 'pmax': 1} if q else {})))
        sh.append(dict({'e1': e, 'K': 2, 'n0': 2, 'beh': 0}, **({'pmin': 0, 'pmax': 1} if q else {})))
    return [
        Cond('c09_events', shards=sh, budget=200 if q else 1500, twins=2,
             bounds={'e1,e2': 'S: 13-event menu (C01 menu + stop, start) + signal request {plain, recursive, children, one pid}', 'p1,p2': 'R[-1,2] (quick K=2 shards: [0,1])', 'g1': 'S{now, 1 turn, quiescence}',
                     'd': 'R[0,dmax] kernel call at which a worker dies', 'kind,code,sig': 'R: every wait status a dead process can have '
                     '(exit code R[0,255]; signal R[1,64] with and without the core flag)', 'v': 'S{0,1}', 'var': 'S: configuration variant {default, send_hup, max_age 1 s, on_demand (started by a connection)}'}),
    ]
