"""C11 -- a request refused as invalid or conflicting changes nothing.

Real code under the solver: Controller.dispatch, Command.validate of every command, Set.validate/execute,
AddWatcher.validate/execute, validate_option, Kill / Signal validate, Arbiter.add_watcher, Watcher.set_opt,
util.synchronized (conflicts).  World: vtlib.world.
"""
from vtlib import rt
from vtlib.driver import Cond
from vtlib.harness import scen
from vtlib.harness.scen import World, Beh

PROPERTY = 'C11'
TITLE = 'A request refused as invalid or conflicting changes nothing'
FUNCTIONS = ['circus/controller.py:Controller.dispatch', 'circus/commands/set.py:Set.validate', 'circus/commands/set.py:Set.execute',
             'circus/commands/addwatcher.py:AddWatcher.validate', 'circus/commands/addwatcher.py:AddWatcher.execute',
             'circus/commands/util.py:validate_option', 'circus/commands/base.py:Command.validate', 'circus/commands/kill.py:Kill.validate',
             'circus/commands/sendsignal.py:Signal.validate', 'circus/arbiter.py:Arbiter.add_watcher', 'circus/watcher.py:Watcher.set_opt']
ASSUMPTIONS = [
    'simulated kernel / clock / zmq as in C01',
    '"validation-class error" = any error reply (errno INVALID_JSON, UNKNOWN_COMMAND, MESSAGE_ERROR, COMMAND_ERROR, OS_ERROR, BAD_MSG_DATA) to a '
    'request that is one of the corrupted forms generated here',
]
EXPLANATION = ('C11: every corrupted request of a generated menu (dropped fields, each JSON type in each field, unknown watcher / option / user, '
               'out-of-domain values, bad signal designations, duplicate names in another letter case, bad option first / in the middle / last '
               'among good ones) is issued in three daemon states (all active, one stopped, an operation in flight); an error reply must leave '
               'watchers, options, statuses, pids, the kernel spawn / signal logs and the exclusive slot untouched. ')

GOOD = {'graceful_timeout': 7, 'max_retry': 9}


def _opts(bad_key, bad_val, pos):
    items = list(GOOD.items())
    items.insert({'first': 0, 'middle': 1, 'last': 2}[pos], (bad_key, bad_val))
    return dict(items)


MUST_REFUSE = set()


def build_menu():
    M = []

    def R(cmd, props):
        """a request that is invalid by construction: it must be answered with an error"""
        MUST_REFUSE.add(len(M))
        M.append((cmd, props))
    # --- set
    for pos in ('first', 'middle', 'last'):
        R('set', {'name': 'a', 'options': _opts('numprocesses', 'three', pos)})
        R('set', {'name': 'a', 'options': _opts('nosuchoption', 1, pos)})
        M.append(('set', {'name': 's', 'options': _opts('numprocesses', 2, pos)}))          # singleton
        M.append(('set', {'name': 'a', 'options': _opts('uid', 'no-such-user-xyz', pos)}))
        R('set', {'name': 'a', 'options': _opts('stop_signal', 'SIGBOGUS', pos)})
        R('set', {'name': 'a', 'options': _opts('env', {'A': 5}, pos)})
        M.append(('set', {'name': 'a', 'options': _opts('hooks', {'nohook': 'x.y'}, pos)}))
        R('set', {'name': 'a', 'options': _opts('send_hup', 'yes', pos)})
        R('set', {'name': 'a', 'options': _opts('warmup_delay', 'soon', pos)})
        M.append(('set', {'name': 'a', 'options': _opts('rlimit_bogus', 5, pos)}))
        M.append(('set', {'name': 'a', 'options': _opts('stdout_stream', {'filename': 'x'}, pos)}))
    for v in (None, 5, 'str', []):
        M.append(('set', {'name': 'a', 'options': v}))
    M.append(('set', {'name': 'a'}))
    M.append(('set', {'options': dict(GOOD)}))
    M.append(('set', {'name': 'zz', 'options': dict(GOOD)}))
    M.append(('set', {'name': 5, 'options': dict(GOOD)}))
    # --- add
    M.append(('add', {'name': 'A', 'cmd': 'prog'}))                     # duplicate in another letter case
    M.append(('add', {'name': 'a', 'cmd': 'prog', 'start': True}))
    M.append(('add', {'name': 'n', 'cmd': 'prog', 'options': _opts('numprocesses', 'x', 'last')}))
    M.append(('add', {'name': 'n', 'cmd': 'prog', 'options': _opts('nosuch', 1, 'middle')}))
    M.append(('add', {'name': 'n', 'cmd': 'prog', 'options': []}))
    M.append(('add', {'name': 'n'}))
    M.append(('add', {'cmd': 'prog'}))
    M.append(('add', {'name': 'n', 'cmd': 'prog', 'start': True, 'options': {'singleton': True, 'numprocesses': 3}}))
    M.append(('add', {'name': 'n', 'cmd': 'prog', 'start': True, 'options': {'hooks': {'before_start': 'no.such.module'}}}))
    M.append(('add', {'name': 'n', 'cmd': 'prog', 'options': {'uid': 'no-such-user-xyz'}, 'start': True}))
    # --- incr / decr / kill / signal / rm / stop / start / reload / restart
    for c in ('incr', 'decr'):
        M.append((c, {'name': 'zz'}))
        M.append((c, {}))
        M.append((c, {'name': 'a', 'nb': 'one'}))
        M.append((c, {'name': None}))
    R('kill', {'name': 'a', 'signum': 'SIGBOGUS'})
    R('kill', {'name': 'a', 'signum': 'TERM x'})
    R('kill', {'name': 'a', 'signum': 'int-1'})
    R('signal', {'name': 'a', 'signum': 'usr1 '})
    R('signal', {'name': 'a', 'signum': 'hup+'})
    R('kill', {'name': 'zz'})
    M.append(('kill', {'name': 'a', 'pid': 'abc'}))
    M.append(('kill', {'name': 'a', 'graceful_timeout': 'soon'}))
    M.append(('kill', {'name': 'a', 'graceful_timeout': [1]}))
    M.append(('kill', {}))
    R('signal', {'name': 'a', 'signum': 'SIGBOGUS'})
    R('signal', {'name': 'a', 'signum': '_IGN'})
    M.append(('signal', {'name': 'a'}))
    R('signal', {'name': 'zz', 'signum': 15})
    M.append(('signal', {'name': 'a', 'signum': 15, 'childpid': 4}))
    M.append(('signal', {'name': 'a', 'signum': 15, 'pid': 99999}))
    M.append(('signal', {'name': 'a', 'signum': 15, 'pid': 'x'}))
    M.append(('signal', {'name': 'a', 'signum': None}))
    M.append(('rm', {'name': 'zz'}))
    M.append(('rm', {}))
    M.append(('rm', {'name': 7}))
    for c in ('stop', 'start', 'restart', 'reload'):
        M.append((c, {'name': 'zz'}))
        M.append((c, {'name': 'zz', 'match': 'simple'}))
        M.append((c, {'name': 'a', 'match': 'bogus'}))
        M.append((c, {'name': '(', 'match': 'regex'}))
        M.append((c, {'name': 5}))
    M.append(('options', {'name': 'zz'}))
    M.append(('get', {'name': 'a', 'keys': ['nope']}))
    M.append(('get', {'name': 'a'}))
    R('nosuchcommand', {'name': 'a'})
    # ill-typed values that compare EQUAL to values accepted earlier (the daemon is primed with the valid forms)
    R('set', {'name': 'a', 'options': {'numprocesses': 3.0}})
    R('set', {'name': 'a', 'options': {'send_hup': 1}})
    R('set', {'name': 'a', 'options': {'stop_signal': 9.0}})
    R('set', {'name': 'a', 'options': {'warmup_delay': 4, 'stop_children': 1}})
    # --- ill-typed properties that only fail once the operation runs (sent with waiting so that the failure is reported)
    M.append(('kill', {'name': 'a', 'graceful_timeout': 'soon', 'waiting': True}))
    M.append(('kill', {'name': 'a', 'graceful_timeout': [1], 'waiting': True}))
    M.append(('incr', {'name': 'a', 'nb': 'one', 'waiting': True}))
    M.append(('decr', {'name': 'a', 'nb': [1], 'waiting': True}))
    # --- perfectly valid requests: refused only when they conflict with an operation in flight
    M.append(('set', {'name': 'b', 'options': dict(GOOD, numprocesses=3)}))
    M.append(('set', {'name': 'b', 'options': {'args': 'q'}}))
    M.append(('incr', {'name': 'b', 'nb': 2}))
    M.append(('decr', {'name': 'b'}))
    M.append(('add', {'name': 'fresh', 'cmd': 'prog', 'start': True}))
    M.append(('rm', {'name': 'b'}))
    M.append(('stop', {'name': 'b', 'match': 'simple'}))
    M.append(('restart', {'name': 'b', 'match': 'simple'}))
    M.append(('reload', {'name': 'b'}))
    M.append(('start', {}))
    M.append(('stop', {}))
    M.append(('reloadconfig', {}))
    return M


MENU = build_menu()
STATES = ('active', 'one_stopped', 'in_flight', 'after_refusals')


def snapshot(w):
    arb = w.arbiter
    k = w.kernel
    ws = []
    for x in sorted(arb.watchers, key=lambda z: z.name):
        opts = []
        for (kk, vv) in x.options():
            opts.append((kk, repr(vv)))
        ws.append((x.name, x.status(), tuple(sorted(x.processes)), tuple(opts), repr(sorted(x.hooks)), repr(x.env)))
    return (tuple(ws), tuple(sorted(arb._watchers_names)), len(k.spawn_log), len(k.signal_log),
            arb._exclusive_running_command, len(w.events))


def c11_refuse(si: int, ri: int) -> bool:
    """
    pre: 0 <= si < rt.S.get('nstates', 3) and 0 <= ri < len(MENU)
    pre: ri % rt.S.get('mod', 1) == rt.S.get('rem', 0)
    post: _
    """
    si = rt.pick(si, len(STATES))
    ri = rt.pick(ri, len(MENU))
    with World() as w:
        k = w.kernel
        k.behaviour = lambda i, argv: Beh(obey=0.1)
        wa = w.mk_watcher('a', numprocesses=2, graceful_timeout=0.3, warmup_delay=0.2)
        wb = w.mk_watcher('b', numprocesses=1, graceful_timeout=0.3)
        ws = w.mk_watcher('s', numprocesses=1, graceful_timeout=0.3, singleton=True)
        w.boot([wa, wb, ws], check_delay=-1)
        try:
            # prime the daemon with VALID forms of some options (a validation cache must not let equal ill-typed values through)
            pr = w.call('set', name='b', options={'numprocesses': 3, 'send_hup': True, 'stop_signal': 9, 'warmup_delay': 4,
                                                 'stop_children': True, 'max_retry': 1}, waiting=True, max_time=20.0)
            w.quiesce()
            if STATES[si] == 'one_stopped':
                w.call('stop', name='b', waiting=True, match='simple')
            elif STATES[si] == 'after_refusals':
                # two other corrupted requests were refused just before: a refusal must not colour the handling of the next request
                import copy as _copy
                for off in (7, 31):
                    c_, p_ = MENU[(ri + off) % len(MENU)]
                    w.send(c_, **_copy.deepcopy(p_))
                w.run_for(1.5)
            elif STATES[si] == 'in_flight':
                w.send('restart', name='a', match='simple')       # holds the exclusive slot for its grace period and warm-up delays
            cmd, props = MENU[ri]
            listed_form = cmd == 'set' and isinstance(props.get('options'), dict) and list(props['options'])[0] in GOOD and \
                (('uid' in props['options']) or (props.get('name') == 's' and 'numprocesses' in props['options']))
            import copy
            before = snapshot(w)
            r = w.send(cmd, **copy.deepcopy(props))
            # what the refusal must not have done is judged at once AND after everything has settled
            if not r.replies and STATES[si] != 'in_flight':
                w.run_for(1.5)
            if not r.replies:
                if STATES[si] == 'in_flight':
                    return rt.skip()

                rt.note('%s %r: no reply', cmd, props)
                return rt.verdict(False)
            if listed_form and r.replies and r.reply.get('errno') == 5 and rt.finding_listed('c11.set_applies_options_one_by_one'):
                # listed known finding: the watcher itself rejects a later option, the request is answered as a COMMAND error (errno 5,
                # with a traceback) and the earlier options stay applied.  Answered as a validation error it is judged like any other.
                return rt.skip()
            if r.status != 'error':
                if ri in MUST_REFUSE and snapshot(w) != before:
                    rt.note('%s %r is invalid by construction, yet it was answered %r and changed the daemon', cmd, props,
                            r.reply.get('status'))
                    return rt.verdict(False)
                return rt.skip()                          # accepted: nothing is claimed about it here
            ok = True
            after = snapshot(w)
            if after != before:
                rt.note('refused %s %r (reason %r) changed the daemon', cmd, props, r.reply.get('reason'))
                for a_, b_ in zip(before[0], after[0]):
                    if a_ != b_:
                        rt.note('   %r -> %r', [x for x in a_ if x not in b_][:3], [x for x in b_ if x not in a_][:3])
                if before[2:] != after[2:]:
                    rt.note('   spawn/signal/slot/events %r -> %r', before[2:], after[2:])
                ok = False
            if STATES[si] != 'in_flight':
                # nothing happens later either (with an operation in flight only the synchronous effect can be isolated)
                w.run_for(1.5)
                final = snapshot(w)
                if final != before:
                    rt.note('after settling, the refused %s %r has had an effect', cmd, props)
                    ok = False
            return rt.verdict(ok)
        except (scen.Diverged, scen.BlockedLoop):
            return rt.skip()


KNOWN = [
    {'key': 'c11.set_applies_options_one_by_one', 'fn': 'c11_refuse', 'shard': {'mod': 1, 'rem': 0},
     'args': {'si': 0, 'ri': [i for i, (c, p) in enumerate(MENU) if c == 'set' and p.get('name') == 's'
                              and list(p['options'])[-1] == 'numprocesses'][0]},
     'what': '`set` applies its options one by one: when a later option is rejected by the watcher itself (numprocesses > 1 on a singleton, '
             'unknown uid/gid) the request is answered with an error but the options before it stay applied'},
]


def _canary_set_no_lock():
    """Watcher.set_opt loses its @synchronized: a conflicting `set` writes its options before being refused"""
    import circus.watcher as cw
    cw.Watcher.set_opt = cw.Watcher.set_opt.__wrapped__


def _canary_signal_late_check():
    """stop_signal names are resolved while applying (after earlier options were written)"""
    import circus.commands.util as cu
    orig = cu.validate_option

    def validate_option(key, val):
        if key == 'stop_signal' and isinstance(val, str):
            return
        return orig(key, val)
    cu.validate_option = validate_option
    import circus.commands.set as cs
    cs.validate_option = validate_option


CANARIES = {
    'set_opt_without_lock': {'apply': _canary_set_no_lock, 'conds': ['c11_refuse'], 'shards': [{'mod': 1, 'rem': 0}],
                             'what': 'set during a conflict applies its options before the conflict is detected'},
    'stop_signal_checked_while_applying': {'apply': _canary_signal_late_check, 'conds': ['c11_refuse'], 'shards': [{'mod': 1, 'rem': 0}],
                                           'what': 'stop_signal string validated only inside the apply loop'},
}


def plan(tier):
    q = tier == 'quick'
    mod = 16
    return [
        Cond('c11_refuse', shards=[dict({'mod': mod, 'rem': r}, **({} if q else {'nstates': 4})) for r in range(mod)], budget=240 if q else 900, twins=2,
             bounds={'state': 'S%r (the last one in the thorough tier only)' % (STATES,), 'request': 'S: %d corrupted requests (see build_menu)' % len(MENU)}),
    ]
