"""C06 -- every control request gets exactly one well-formed reply bearing its id.

Real code under the solver: Controller.handle_message / dispatch / _dispatch_callback(_future) / send_response /
send_error, Command.validate of every registered command, validate_option, TransformableFuture,
CircusClient.call, AsyncCircusClient.call.  World: vtlib.world (the ROUTER stream is captured; the byte-level
conditions use the real JSON codec).
"""
from vtlib import rt
from vtlib.driver import Cond
from vtlib.harness import scen
from vtlib.harness.scen import World, Beh

PROPERTY = 'C06'
TITLE = 'Every control request gets exactly one well-formed reply bearing its id'
FUNCTIONS = ['circus/controller.py:Controller.handle_message', 'circus/controller.py:Controller.dispatch',
             'circus/controller.py:Controller._dispatch_callback', 'circus/controller.py:Controller._dispatch_callback_future',
             'circus/controller.py:Controller.send_response', 'circus/commands/base.py:Command.validate',
             'circus/commands/util.py:validate_option', 'circus/util.py:TransformableFuture._internal_callback',
             'circus/client.py:CircusClient.call', 'circus/client.py:AsyncCircusClient.call']
ASSUMPTIONS = [
    'zmq framing is [client id, payload]; the fake ROUTER stream never fails; the JSON codec (stdlib) is trusted',
    'the `status` command documents that its reply\'s status field carries the watcher status (active/stopped/...) instead of ok',
    'the reply to a waiting `quit` is not checked on an embedded (provided) loop, where the stream is closed first; see C08',
]
EXPLANATION = ('C06: (a) free short byte strings (bug hunting), (b) structured bytes = one-character fringe around JSON cores (exhausted), '
               '(c) JSON documents assembled from selector menus for id / command / msg_type / properties, (d) waiting requests whose operation '
               'fails after the immediate path, (e) the client libraries against scripted reply sequences. ')

CORES = (b'{}', b'[]', b'0', b'""', b'null', b'true', b'{"command": "numwatchers", "id": "x"}',
         b'{"command": "numwatchers"}', b'{"id": "x"}', b'{"command": null, "id": "x"}', b'{"command": 5, "id": "x"}',
         b'{"command": "nope", "id": "x"}', b'{"command": "NUMWATCHERS", "id": "x", "properties": null}',
         b'{"command": "list", "id": "x", "properties": []}', b'{"command": "list", "id": "x", "msg_type": "cast"}',
         b'[{"command": "list"}]', b'"list"', b'', b' ', b'{"command": "stats", "id": ["a"], "properties": {"name": 3}}')
FRINGE = (b'', b' ', b'\n', b'x', b'{', b'}', b'\xff', b'\x00', b',', b'"')


def _mk(capture):
    w = World(capture_json=capture)
    w.install()
    w.make_loop()
    w.kernel.behaviour = lambda i, argv: Beh(obey=0.0)
    wa = w.mk_watcher('a', numprocesses=1, graceful_timeout=0.2)
    w.boot([wa], check_delay=-1)
    return w, wa


def _still_serving(w):
    r = w.send('numwatchers')
    return bool(r.replies) and r.status == 'ok'


def _deliver_raw(w, raw):
    """-> list of reply objects produced by this message (None if the handler raised)"""
    n0 = len(w.replies)
    f0 = len(w.raw_frames)
    try:
        w.arbiter.ctrl.handle_message([b'cid', raw])
    except BaseException as e:     # noqa -- anything escaping the handler means: no reply and a traceback in the loop
        if type(e).__module__.startswith('crosshair'):
            raise
        rt.note('handle_message raised %s: %s', type(e).__name__, e)
        return None, len(w.raw_frames) - f0
    return [o for (_c, o) in w.replies[n0:]], len(w.raw_frames) - f0


def _check_raw(w, raw, expect_id=None, cast=False):
    replies, nframes = _deliver_raw(w, raw)
    if replies is None:
        return False
    if cast:
        if replies:
            rt.note('cast message answered: %r', replies)
            return False
        return True
    if len(replies) != 1 or nframes != 2:
        rt.note('%d replies / %d frames for message %r', len(replies), nframes, raw)
        return False
    o = replies[0]
    if not isinstance(o, dict) or o.get('status') not in ('ok', 'error') or 'id' not in o:
        rt.note('malformed reply %r', o)
        return False
    if o['id'] != expect_id:
        rt.note('reply id %r, request id %r', o['id'], expect_id)
        return False
    return True


def _expected(raw):
    """what the request says about id / cast, by an independent reading of the document"""
    import json
    try:
        doc = json.loads(raw)
    except ValueError:
        return None, False
    if isinstance(doc, dict):
        return doc.get('id'), doc.get('msg_type') == 'cast'
    return None, False


def c06_struct(ci: int, i: int, j: int) -> bool:
    """
    Structured bytes: PRE + core + POST, core from CORES, PRE/POST from FRINGE (whitespace, stray byte, non-UTF-8, NUL).

    pre: 0 <= ci < len(CORES) and 0 <= i < len(FRINGE) and 0 <= j < len(FRINGE)
    pre: ci % 6 == rt.S.get('cmod', ci % 6)
    post: _
    """
    ci = rt.pick(ci, len(CORES))
    i = rt.pick(i, len(FRINGE))
    j = rt.pick(j, len(FRINGE))
    raw = FRINGE[i] + CORES[ci] + FRINGE[j]
    w, wa = _mk(False)
    try:
        eid, cast = _expected(raw.strip())
        ok = _check_raw(w, raw, eid, cast)
        ok = _still_serving(w) and ok
        return rt.verdict(ok)
    finally:
        w.close()


def c06_bytes(msg: bytes) -> bool:
    """
    Free short byte strings through the real JSON codec (bounded bug hunting).

    pre: len(msg) <= rt.S.get('maxlen', 4)
    post: _
    """
    w, wa = _mk(False)
    try:
        replies, nframes = _deliver_raw(w, msg)
        ok = replies is not None and len(replies) == 1 and isinstance(replies[0], dict) \
            and replies[0].get('status') in ('ok', 'error') and 'id' in replies[0]
        ok = _still_serving(w) and ok
        return rt.verdict(ok)
    finally:
        w.close()


# ---------------------------------------------------------------------------------------------
IDS = ('absent', None, 7, 'abc', ['l'], {'k': 1}, 1.5, True)
COMMANDS = ('absent', None, 5, ['list'], 'nope', '', 'LIST', 'list', 'status', 'stats', 'numprocesses', 'numwatchers', 'options',
            'globaloptions', 'dstats', 'listsockets', 'get', 'set', 'incr', 'decr', 'start', 'stop', 'restart', 'reload', 'add', 'rm',
            'kill', 'signal', 'reloadconfig', 'ipython')
MSGTYPES = ('absent', 'cast', 'other', None)
PROPS = ('absent', None, [], 'str', {}, {'name': 'a'}, {'name': 'A'}, {'name': 'zz'}, {'name': 3}, {'name': None},
         {'name': 'a', 'waiting': True}, {'name': 'a', 'nb': 'x'}, {'name': 'a', 'options': None}, {'name': 'a', 'options': {'numprocesses': 'x'}},
         {'name': 'a', 'keys': ['numprocesses', 'nope']}, {'name': 'a', 'signum': 'bogus'}, {'name': 'a', 'signum': 15, 'pid': 'x'},
         {'name': 'a', 'cmd': 5}, {'name': 'a', 'process': 'x'}, {'waiting': 'yes', 'match': 'regex', 'name': '('})


def c06_json(top: int, idi: int, ci: int, mi: int, pi: int) -> bool:
    """
    JSON documents assembled from menus; delivered through the real codec.

    pre: 0 <= top <= rt.S.get('topmax', 1) and 0 <= idi < rt.S.get('nids', len(IDS)) and 0 <= mi < rt.S.get('nmt', len(MSGTYPES))
    pre: 0 <= pi < len(PROPS)
    pre: ci == rt.S['ci']
    post: _
    """
    import json
    idi = rt.pick(idi, len(IDS))
    mi = rt.pick(mi, len(MSGTYPES))
    pi = rt.pick(pi, len(PROPS))
    ci = rt.pick(ci, len(COMMANDS))
    top = rt.pick(top, 2)
    doc = {}
    if IDS[idi] != 'absent':
        doc['id'] = IDS[idi]
    if COMMANDS[ci] != 'absent':
        doc['command'] = COMMANDS[ci]
    if MSGTYPES[mi] != 'absent':
        doc['msg_type'] = MSGTYPES[mi]
    if PROPS[pi] != 'absent':
        doc['properties'] = PROPS[pi]
    if top == 1:
        doc = [doc]
    raw = json.dumps(doc).encode()
    if COMMANDS[ci] in ('ipython',):
        return rt.skip()
    if COMMANDS[ci] == 'restart' and not (isinstance(PROPS[pi], dict) and 'name' in PROPS[pi]) and top == 0:
        return rt.skip()      # `restart` without a name is the daemon's self-restart (shutdown path, C08)
    w, wa = _mk(False)
    try:
        eid, cast = _expected(raw)
        replies, nframes = _deliver_raw(w, raw)
        ok = True
        if replies is None:
            ok = False
        else:
            # a waiting request is answered when its operation ends
            w.run_for(2.0)
            replies = [o for (_c, o) in w.replies]
            if cast:
                if replies:
                    rt.note('cast message answered %r', replies)
                    ok = False
            elif len(replies) != 1:
                rt.note('%d replies for %r', len(replies), doc)
                ok = False
            else:
                o = replies[0]
                st_ok = o.get('status') in ('ok', 'error') or (COMMANDS[ci] == 'status' and isinstance(o.get('status'), str))
                if not isinstance(o, dict) or not st_ok or o.get('id', 'missing') != eid:
                    rt.note('reply %r to %r (expected id %r)', o, doc, eid)
                    ok = False
        w.replies[:] = []
        ok = _still_serving(w) and ok
        return rt.verdict(ok)
    finally:
        w.close()


OPS = ('incr', 'decr', 'set_np', 'set_args', 'restart', 'reload', 'reload_seq', 'start', 'stop', 'add_start', 'rm', 'kill')


def c06_async(oi: int, fail: int, waiting: bool) -> bool:
    """
    Requests whose operation fails AFTER the immediate path (unexpected exception in the n-th spawn, or in a
    signal delivery): still exactly one reply per request -- `error` when sent with waiting, the immediate
    `ok` otherwise -- and never a second one.

    pre: 0 <= oi < len(OPS) and 0 <= fail <= 3
    post: _
    """
    oi = rt.pick(oi, len(OPS))
    fail = rt.pick(fail, 4)
    with World() as w:
        k = w.kernel
        k.behaviour = lambda i, argv: Beh(obey=0.1)
        wa = w.mk_watcher('a', numprocesses=2, graceful_timeout=0.3, warmup_delay=0.2)
        wb = w.mk_watcher('b', numprocesses=1, graceful_timeout=0.3)
        w.boot([wa, wb], check_delay=-1)
        if fail > 0:
            k.spawn_errors = {k.spawn_attempts + fail - 1: RuntimeError('exec blew up (injected)')}
        op = OPS[oi]
        wt = bool(waiting)
        if op == 'incr':
            r = w.send('incr', name='a', nb=2, waiting=wt)
        elif op == 'decr':
            r = w.send('decr', name='a', nb=1, waiting=wt)
        elif op == 'set_np':
            r = w.send('set', name='a', options={'numprocesses': 4}, waiting=wt)
        elif op == 'set_args':
            r = w.send('set', name='a', options={'args': 'z'}, waiting=wt)
        elif op in ('restart', 'start', 'stop'):
            if op == 'start':
                w.call('stop', name='a', waiting=True, match='simple')
            r = w.send(op, name='a', waiting=wt, match='simple')
        elif op == 'reload':
            r = w.send('reload', name='a', waiting=wt)
        elif op == 'reload_seq':
            r = w.send('reload', name='a', waiting=wt, sequential=True)
        elif op == 'add_start':
            r = w.send('add', name='n', cmd='prog', start=True, waiting=wt, options={'numprocesses': 2})
        elif op == 'rm':
            r = w.send('rm', name='b', waiting=wt)
        else:
            r = w.send('kill', name='a', waiting=wt)
        try:
            w.run_for(4.0)
        except (scen.Diverged, scen.BlockedLoop):
            return rt.skip()
        if w.clock.tripped:
            return rt.skip()
        ok = True
        if len(r.replies) != 1:
            rt.note('%s waiting=%r fail=%r: %d replies %r', op, wt, fail, len(r.replies), r.replies)
            ok = False
        elif r.status not in ('ok', 'error'):
            ok = False
        k.spawn_errors = {}
        ok = _still_serving(w) and ok
        return rt.verdict(ok)


# ---------------------------------------------------------------------------------------------
EXIT_OPS = ('signal', 'kill', 'incr', 'start')
EXIT_KINDS = ('SystemExit', 'KeyboardInterrupt', 'GeneratorExit')


def c06_exit(oi: int, ki: int, waiting: bool) -> bool:
    """
    "also when the requested operation fails part-way": user hook code that leaves through an exception which is NOT an
    Exception subclass (sys.exit() in a hook, KeyboardInterrupt, GeneratorExit) during the synchronous part of a command still
    yields exactly one error reply, and the daemon serves the next request.

    pre: 0 <= oi < len(EXIT_OPS) and 0 <= ki < len(EXIT_KINDS)
    post: _
    """
    import json
    oi = rt.pick(oi, len(EXIT_OPS))
    ki = rt.pick(ki, len(EXIT_KINDS))
    exc = {'SystemExit': SystemExit, 'KeyboardInterrupt': KeyboardInterrupt, 'GeneratorExit': GeneratorExit}[EXIT_KINDS[ki]]
    armed = {'on': False}

    def hook(*a, **kw):
        if armed['on']:
            raise exc(3) if exc is SystemExit else exc()
        return True
    op = EXIT_OPS[oi]
    hname = {'signal': 'before_signal', 'kill': 'before_signal', 'incr': 'before_spawn', 'start': 'before_start'}[op]
    with World() as w:
        k = w.kernel
        k.behaviour = lambda i, argv: Beh(obey=0.0)
        wa = w.mk_watcher('a', numprocesses=1, graceful_timeout=0.2, hooks={hname: (hook, False)})
        wb = w.mk_watcher('b', numprocesses=1, graceful_timeout=0.2)
        w.boot([wa, wb], check_delay=-1)
        if op == 'start':
            w.call('stop', name='a', waiting=True, match='simple')
        props = {'signal': {'name': 'a', 'signum': 'usr1'}, 'kill': {'name': 'a'}, 'incr': {'name': 'a', 'nb': 1},
                 'start': {'name': 'a', 'match': 'simple'}}[op]
        if waiting:
            props = dict(props, waiting=True)
        armed['on'] = True
        raw = json.dumps({'id': 'x1', 'command': op, 'properties': props}).encode()
        replies, _n = _deliver_raw(w, raw)
        armed['on'] = False
        ok = True
        if replies is None:
            rt.note('%s: %s raised by the %s hook escaped the request handler: no reply, and the loop that ran the handler is gone', op,
                    EXIT_KINDS[ki], hname)
            return rt.verdict(False)
        try:
            w.run_for(1.0)
        except (scen.Diverged, scen.BlockedLoop):
            return rt.skip()
        got = [o for (_c, o) in w.replies if isinstance(o, dict) and o.get('id') == 'x1']
        if len(got) != 1 or got[0].get('status') not in ('ok', 'error'):
            rt.note('%s with a %s hook leaving through %s: replies %r', op, hname, EXIT_KINDS[ki], got)
            ok = False
        ok = _still_serving(w) and ok
        return rt.verdict(ok)


# ---------------------------------------------------------------------------------------------
REPLY_KINDS = ('own', 'stale', 'foreign', 'noid', 'dup_own', 'garbage_json', 'silence')


def c06_client(k1: int, k2: int, k3: int, resend: bool, stall: int) -> bool:
    """
    CircusClient.call against a scripted socket: a sequence of up to three replies (own id, stale id of an earlier
    call, foreign id, no id, duplicate of own) then silence.  It returns only the reply bearing this call's id,
    otherwise reports a timeout; a re-sent message dict gets a fresh id.

    stall: the client process is descheduled for longer than the call timeout while it handles the stall-th reply
    (0 = never); whatever clock the client consults is virtual, and a poll without a finite timeout on an empty
    socket never returns (zmq semantics: None or a negative timeout waits for ever).

    pre: 0 <= k1 < len(REPLY_KINDS) and 0 <= k2 < len(REPLY_KINDS) and 0 <= k3 < len(REPLY_KINDS) and 0 <= stall <= 3
    post: _
    """
    import json
    import time as _time
    import circus.client as cc
    from circus.exc import CallError
    k1 = rt.pick(k1, len(REPLY_KINDS))
    k2 = rt.pick(k2, len(REPLY_KINDS))
    k3 = rt.pick(k3, len(REPLY_KINDS))
    stall = rt.pick(stall, 4)
    script = [REPLY_KINDS[x] for x in (k1, k2, k3)]
    sent = []
    state = {'queue': [], 'prev_ids': [], 'now': 5000.0, 'recvs': 0}

    class Hang(Exception):
        pass

    class FakeTime(object):
        def time(self):
            return state['now']

        def monotonic(self):
            return state['now']

        def sleep(self, d):
            state['now'] += d

        def __getattr__(self, n):
            return getattr(_time, n)

    class Sock(object):
        def setsockopt(self, *a):
            pass

        def connect(self, *a):
            pass

        def send(self, data):
            doc = json.loads(data)
            sent.append(doc)
            q = []
            for kind in script:
                if kind == 'own':
                    q.append(json.dumps({'status': 'ok', 'id': doc['id'], 'tag': 'own'}).encode())
                elif kind == 'dup_own':
                    q.append(json.dumps({'status': 'ok', 'id': doc['id'], 'tag': 'dup'}).encode())
                elif kind == 'stale':
                    pid = state['prev_ids'][-1] if state['prev_ids'] else 'earlier-call'
                    q.append(json.dumps({'status': 'ok', 'id': pid, 'tag': 'stale'}).encode())
                elif kind == 'foreign':
                    q.append(json.dumps({'status': 'ok', 'id': 'somebody-else', 'tag': 'foreign'}).encode())
                elif kind == 'noid':
                    q.append(json.dumps({'status': 'ok', 'tag': 'noid'}).encode())
                elif kind == 'garbage_json':
                    q.append(b'{not json')
                else:
                    break
            state['queue'] = q
            state['prev_ids'].append(doc['id'])

        def recv(self):
            state['recvs'] += 1
            state['now'] += 1.5 if state['recvs'] == stall else 0.0001
            return state['queue'].pop(0)

        def close(self):
            pass

    sock = Sock()

    class Poller(object):
        def register(self, *a):
            pass

        def poll(self, timeout=None):
            if state['queue']:
                return [(sock, 1)]
            if timeout is None or timeout < 0:
                raise Hang('poll(%r) on a socket nothing will ever arrive on' % (timeout,))
            state['now'] += timeout / 1000.0
            return []

    class Ctx(object):
        def socket(self, kind):
            return sock
    old_poller = cc.zmq.Poller
    old_conn = cc.get_connection
    cc.get_connection = lambda s, e, *a: None
    old_time = getattr(cc, 'time', None)
    if old_time is not None:
        cc.time = FakeTime()             # the pinned client consults no clock; if a version does, it gets the virtual one
    try:
        cl = cc.CircusClient(context=Ctx(), endpoint='tcp://127.0.0.1:1', timeout=1.0)
        cl.poller = Poller()
        msg = {'command': 'numwatchers', 'properties': {}}
        ok = True
        rounds = 2 if resend else 1
        for rnd in range(rounds):
            state['recvs'] = 0
            try:
                res = cl.call(msg)
                got = res
            except CallError as e:
                got = ('CallError', str(e))
            except Hang as e:
                rt.note('round %d script %r stall at reply %d: call never returns -- %s', rnd, script, stall, e)
                return rt.verdict(False)
            my_id = sent[-1]['id']
            # expected by an independent reading of the script
            exp = None
            for kind in script:
                if kind == 'silence':
                    break
                if kind == 'garbage_json':
                    exp = 'error'
                    break
                if kind in ('own', 'dup_own'):
                    exp = 'own' if kind == 'own' else 'dup'
                    break
            if exp in ('own', 'dup'):
                if not isinstance(got, dict) or got.get('id') != my_id or got.get('tag') != exp:
                    rt.note('round %d script %r: call returned %r, expected the reply tagged %r with id %r', rnd, script, got, exp, my_id)
                    ok = False
            else:
                if isinstance(got, dict):
                    rt.note('round %d script %r: call returned %r although no reply bears its id', rnd, script, got)
                    ok = False
        if len(sent) == 2 and sent[0]['id'] == sent[1]['id']:
            rt.note('two calls were sent with the same id %r', sent[0]['id'])
            ok = False
        return rt.verdict(ok)
    finally:
        cc.zmq.Poller = old_poller
        cc.get_connection = old_conn
        if old_time is not None:
            cc.time = old_time


# ---------------------------------------------------------------------------------------------
def _canary_double_reply():
    """error reply also for non-waiting requests whose operation fails later (second reply)"""
    import circus.controller as ctl
    from circus.commands import errors

    def _dispatch_callback_future(self, msg, cid, mid, cast, cmd_name, send_resp, future):
        exception = ctl.check_future_exception_and_log(future)
        if exception is not None:
            self.send_error(mid, cid, msg, "server error", cast=cast, errno=errors.BAD_MSG_DATA_ERROR)
        elif send_resp:
            self._dispatch_callback(msg, cid, mid, cast, cmd_name, future.result())
    ctl.Controller._dispatch_callback_future = _dispatch_callback_future


def _canary_reuse_id():
    """client reuses the id found in the message dict"""
    import circus.client as cc
    import uuid
    orig = cc.CircusClient.call

    def call(self, cmd):
        keep = cmd.get('id')
        real_uuid4 = uuid.uuid4
        if keep is not None:
            class _U(object):
                hex = keep
            cc.uuid.uuid4 = lambda: _U()
        try:
            return orig(self, cmd)
        finally:
            cc.uuid.uuid4 = real_uuid4
    cc.CircusClient.call = call


def _canary_no_id_filter():
    """client returns the first reply whatever its id"""
    import circus.client as cc
    import errno
    from circus.exc import CallError

    def call(self, cmd):
        call_id = cc.uuid.uuid4().hex
        cmd['id'] = call_id
        self.socket.send(cc.json.dumps(cmd))
        while True:
            events = dict(self.poller.poll(self.timeout))
            if len(events) == 0:
                raise CallError("Timed out.")
            for socket in events:
                msg = socket.recv()
                try:
                    return cc.json.loads(msg)
                except ValueError as e:
                    raise CallError(str(e))
    cc.CircusClient.call = call


CANARIES = {
    'second_reply_after_async_failure': {'apply': _canary_double_reply, 'conds': ['c06_async'],
                                         'what': 'a non-waiting request gets a second (error) reply when its operation fails later'},
    'client_reuses_message_id': {'apply': _canary_reuse_id, 'conds': ['c06_client'],
                                 'what': 'CircusClient.call keeps the id already present in the message dict'},
    'client_without_id_filter': {'apply': _canary_no_id_filter, 'conds': ['c06_client'],
                                 'what': 'CircusClient.call returns the first reply received'},
}

KNOWN = []


def plan(tier):
    q = tier == 'quick'
    return [
        Cond('c06_struct', shards=[{'cmod': m} for m in range(6)], budget=240 if q else 900, twins=1,
             smoke=[({}, dict(ci=2, i=0, j=2)), ({}, dict(ci=18, i=0, j=0))],
             bounds={'core': 'S: %d JSON cores (scalars, arrays, objects with missing / null / ill-typed fields, valid requests, empty)' % len(CORES),
                     'PRE,POST': 'S: %d fringe bytes (empty, blank, newline, letter, brace, 0xff, NUL, comma, quote)' % len(FRINGE)}),
        Cond('c06_json', shards=([dict(ci=i, topmax=0, nids=4, nmt=2) for i in range(len(COMMANDS))] + [dict(ci=7, nids=8, nmt=4), dict(ci=18, nids=8, nmt=4)]
                                  if q else [{'ci': i} for i in range(len(COMMANDS))]), budget=240 if q else 1200, twins=2,
             bounds={'top': 'S{object, array}', 'id': 'S%r' % (IDS,), 'command': 'S: shard key over %d values (every registered command, '
                     'unknown, upper-case, absent, null, ill-typed)' % len(COMMANDS), 'msg_type': 'S%r' % (MSGTYPES,),
                     'properties': 'S: %d menus of valid and ill-typed fields' % len(PROPS)}),
        Cond('c06_async', budget=240 if q else 900, twins=1,
             bounds={'operation': 'S%r' % (OPS,), 'fail': 'S: which spawn raises an unexpected exception {none, 1st, 2nd, 3rd}', 'waiting': 'S{False, True}'}),
        Cond('c06_exit', budget=60, twins=1,
             bounds={'op': 'S%r' % (EXIT_OPS,), 'exception': 'S%r raised by the hook the operation calls first' % (EXIT_KINDS,), 'waiting': 'S{False, True}'}),
        Cond('c06_client', budget=120 if q else 600, twins=1,
             bounds={'k1,k2,k3': 'S%r' % (REPLY_KINDS,), 'resend': 'S{False, True}: the same message dict is sent again',
                     'stall': 'S{never, while handling reply 1 / 2 / 3}: the client is descheduled for 1.5 x its timeout'}),
        Cond('c06_bytes', kind='hunt', shards=[{'maxlen': 3}] if q else [{'maxlen': 3}, {'maxlen': 5}, {'maxlen': 7}],
             budget=60 if q else 900, bounds={'msg': 'R: any byte string, len <= maxlen'}),
    ]
