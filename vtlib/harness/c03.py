"""C03 -- graceful termination: stop signal first, SIGKILL only after the grace period.

Real code under the solver: Watcher.kill_process, send_signal_process, send_signal, kill_processes,
remove_expired_processes, manage_processes (surplus), _stop, _reload, the kill command (with overrides),
Process.send_signal / children / send_signal_child / stop.  World: vtlib.world.
"""
import signal

from vtlib import rt
from vtlib.driver import Cond
from vtlib.harness import scen
from vtlib.harness.scen import World, Beh, Sched
from vtlib.world import core

PROPERTY = 'C03'
TITLE = 'Graceful termination: stop signal first, SIGKILL only after the grace period'
FUNCTIONS = ['circus/watcher.py:Watcher.kill_process', 'circus/watcher.py:Watcher.send_signal_process',
             'circus/watcher.py:Watcher.send_signal', 'circus/watcher.py:Watcher.remove_expired_processes',
             'circus/watcher.py:Watcher.kill_processes', 'circus/commands/kill.py:Kill.execute',
             'circus/process.py:Process.send_signal_child', 'circus/process.py:Process.children']
ASSUMPTIONS = [
    'simulated kernel / clock as in C01; a dying parent\'s children are re-parented to init at once (POSIX)',
    'timing variables are indices into a 0.05 s grid (symbolic floats are not tractable); the exact float accumulation of the '
    'wait loop for every real timeout up to 120 s is covered by the LRA lemma c03_wait_loop',
    '"exited in time" is read at polling granularity: a worker whose death was observable at a poll before the deadline must not be '
    'SIGKILLed; one that dies inside the last polling interval may still receive a (harmless) SIGKILL',
    'a before_signal hook that vetoes the stop signal is C14\'s subject (no hooks here)',
]
EXPLANATION = ('C03: graceful_timeout and the worker reaction delay range over a 0.05 s grid (on, between and exactly at polling '
               'instants and at the timeout); cause, stop signal, stop_children and per-request overrides are shard keys. ')

CAUSES = ('stop', 'restart', 'decr', 'reload', 'kill', 'kill_override', 'max_age', 'reload_seq', 'kill_then_max_age',
          'kill_then_decr', 'failed_kill_then_stop', 'eperm_stop_then_stop')
EPS = 1e-6
STEP = 0.1
GRID = tuple(i * 0.05 for i in range(0, 41))     # timing values are concrete floats selected by a symbolic index


def c03_grace(gi: int, ri: int, oi: int) -> bool:
    """
    pre: 0 <= gi <= rt.S.get('gmax', 8)
    pre: 0 <= ri <= rt.S.get('rmax', 10)
    pre: 0 <= oi <= rt.S.get('omax', 0)
    post: _
    """
    S = rt.S
    cause = S.get('cause', 'stop')
    gi = rt.pick(gi, S.get('gmax', 8) + 1)
    ri = rt.pick(ri, S.get('rmax', 10) + 1)
    oi = rt.pick(oi, S.get('omax', 0) + 1)
    T = GRID[gi]                      # watcher graceful_timeout
    stubborn = (ri == S.get('rmax', 10))
    r = None if stubborn else GRID[ri]
    stop_sig = S.get('sig', int(signal.SIGTERM))
    nchild = S.get('children', 0)
    with World() as w:
        k = w.kernel
        k.behaviour = lambda i, argv: Beh(obey=r, nchildren=nchild, child_obey=None if nchild else 0.0,
                                          grandchildren=S.get('grand', 0))
        kw = {}
        if cause in ('max_age', 'kill_then_max_age'):
            kw = dict(max_age=1, max_age_variance=0)
        wa = w.mk_watcher('a', numprocesses=S.get('n0', 1), graceful_timeout=T, stop_signal=stop_sig,
                          stop_children=bool(nchild), **kw)
        w.boot([wa], check_delay=-1)
        victims = list(k.alive_pids('a'))
        kids = dict((p, [c.pid for c in k.children_of(p, True)]) for p in victims)
        w.run_for(0.37)               # requests do not arrive on a polling boundary of the clock
        eff_T = T
        eff_sig = stop_sig
        t0 = w.clock.now
        vanished = None
        if S.get('childdeath') and nchild >= 2 and oi > 0:
            # the first-listed child of the worker exits by itself at kernel call oi of the termination (it may be gone when its turn comes)
            vanished = kids[victims[0]][0]
            k.injections.append({'at_call': k.calls + oi, 'victim': ('pid', vanished), 'status': core.status_exit(0)})
        if cause == 'stop':
            req = w.send('stop', name='a', waiting=True, match='simple')
        elif cause == 'restart':
            req = w.send('restart', name='a', waiting=True, match='simple')
        elif cause == 'decr':
            req = w.send('decr', name='a', nb=S.get('n0', 1), waiting=True)
        elif cause == 'reload':
            req = w.send('reload', name='a', waiting=True)
        elif cause == 'reload_seq':
            req = w.send('reload', name='a', waiting=True, sequential=True)
        elif cause == 'kill':
            req = w.send('kill', name='a', waiting=True)
        elif cause == 'kill_override':
            eff_T = GRID[oi]
            eff_sig = int(signal.SIGUSR2)
            req = w.send('kill', name='a', waiting=True, signum='usr2', graceful_timeout=eff_T)
        elif cause == 'failed_kill_then_stop':
            # an earlier kill request named a number that is no signal (kill(2) fails with EINVAL): nothing was delivered,
            # and the worker must be terminated normally by the next request
            w.call('kill', name='a', waiting=True, signum=99, max_time=5.0)
            w.run_for(0.05)
            t0 = w.clock.now
            req = w.send('stop', name='a', waiting=True, match='simple')
        elif cause == 'eperm_stop_then_stop':
            # the first stop is cut short: delivering its stop signal fails once with EPERM; the stop is then requested again
            k.kill_errors.add(k.kill_count)
            w.call('stop', name='a', waiting=True, match='simple', max_time=5.0)
            k.kill_errors.clear()
            w.run_for(0.05)
            t0 = w.clock.now
            req = w.send('stop', name='a', waiting=True, match='simple')
        elif cause in ('kill_then_max_age', 'kill_then_decr'):
            # two terminations of the same worker overlap: a kill request is in its grace period when the
            # periodic check (max_age expiry) / a decr re-evaluates the process set
            if cause == 'kill_then_max_age':
                w.run_for(1.0)
            t0 = w.clock.now
            req = w.send('kill', name='a', waiting=True)
            if cause == 'kill_then_max_age':
                w.arbiter.manage_watchers()
                w.run_for(0.05)
                w.arbiter.manage_watchers()
            else:
                w.send('decr', name='a', nb=1, waiting=False)
        else:   # max_age: the periodic check terminates workers older than max_age
            w.run_for(1.0)
            t0 = w.clock.now
            req = None
            w.arbiter.manage_watchers()
        w.run_until(lambda: (req is not None and bool(req.replies)) or
                    (req is None and w.arbiter._exclusive_running_command is None), max_time=eff_T + 30)
        if not w.clock.tripped:
            w.run_for(0.3)
        if w.clock.tripped:
            # the loop blocked (C05's business) -- unless it blocked BECAUSE a worker was never signalled at all
            unsignalled = [p for p in victims if not [s for s in k.signal_log if s['pid'] == p and s['t'] >= t0 - EPS]]
            if unsignalled and cause in ('failed_kill_then_stop', 'eperm_stop_then_stop'):
                rt.note('worker(s) %r never received the stop signal of the %s; the daemon then blocked waiting for them', unsignalled, cause)
                return rt.verdict(False)
            return rt.skip()
        if cause == 'reload_seq':
            # workers are terminated one after the other: t0 of each is its own first signal
            pass
        ok = True
        for pid in victims:
            sigs = [s for s in k.signal_log if s['pid'] == pid]
            if not sigs:
                rt.note('worker %r never signalled (cause %s)', pid, cause)
                ok = False
                continue
            first = sigs[0]
            tz = first['t'] if cause in ('reload_seq',) else t0
            if first['sig'] != eff_sig or abs(first['t'] - tz) > 0.0021 * len(victims) + 0.002:
                rt.note('first signal to %r is %r at +%.3f (want %r at request time)', pid, first['sig'], first['t'] - tz, eff_sig)
                ok = False
            kills = [s for s in sigs if s['sig'] == 9]
            kp = k.procs[pid]
            death = kp.t_death
            for s in kills:
                if s['t'] < first['t'] + eff_T - EPS:
                    rt.note('SIGKILL to %r after %.3f s, before graceful_timeout %.3f', pid, s['t'] - first['t'], eff_T)
                    ok = False
            alive_at_deadline = death is None or death > first['t'] + eff_T + EPS or \
                (kills and abs(death - kills[0]['t']) < EPS and kills[0]['target'] == 'alive')
            if alive_at_deadline:
                if not kills:
                    rt.note('worker %r alive at the deadline was never SIGKILLed', pid)
                    ok = False
                elif kills[0]['t'] > first['t'] + eff_T + STEP + EPS:
                    rt.note('SIGKILL to %r %.3f s after the deadline (more than one polling step)', pid,
                            kills[0]['t'] - first['t'] - eff_T)
                    ok = False
            # exited in time (observable at a poll strictly before the deadline) -> never SIGKILLed
            if death is not None and not stubborn:
                # polls happen at first['t'] + j*STEP while the accumulated wait is < T
                j = 0
                observed = False
                while j * STEP < eff_T - EPS:
                    if death <= first['t'] + j * STEP + EPS:
                        observed = True
                        break
                    j += 1
                if observed and kills:
                    rt.note('worker %r exited at +%.3f (seen by the poll at +%.3f) but was SIGKILLed', pid,
                            death - first['t'], j * STEP)
                    ok = False
            # children
            if nchild:
                for c in kids[pid]:
                    if c == vanished and k.procs[c].death_how == 'injected':
                        continue              # it left by itself; its siblings are still owed every signal
                    direct = k.procs[c].orig_ppid == pid
                    cs = [s for s in k.signal_log if s['pid'] == c]
                    if direct and (not cs or cs[0]['sig'] != eff_sig):
                        rt.note('child %r of %r did not get the stop signal first: %r', c, pid, [(x['sig']) for x in cs])
                        ok = False
                    if kills and kills[0]['target'] == 'alive' and not [x for x in cs if x['sig'] == 9]:
                        rt.note('final SIGKILL reached worker %r but not its %s %r', pid,
                                'child' if direct else 'grandchild', c)
                        ok = False
        return rt.verdict(ok)


# ---------------------------------------------------------------------------------------------
def _canary_int_ticks():
    """grace period rounded down to whole polling ticks"""
    import circus.watcher as cw
    from tornado import gen
    from psutil import NoSuchProcess

    @gen.coroutine
    def kill_process(self, process, stop_signal=None, graceful_timeout=None):
        if stop_signal is None:
            stop_signal = self.stop_signal
        if graceful_timeout is None:
            graceful_timeout = self.graceful_timeout
        if process.stopping:
            raise gen.Return(False)
        try:
            if self.stop_children:
                self.send_signal_process(process, stop_signal)
            else:
                self.send_signal(process.pid, stop_signal)
                self.notify_event("kill", {"process_pid": process.pid, "time": cw.time.time()})
        except NoSuchProcess:
            raise gen.Return(False)
        process.stopping = True
        max_ticks = int(graceful_timeout / 0.1)
        ticks = 0
        alive = True
        while ticks < max_ticks:
            if not process.is_alive():
                alive = False
                break
            yield cw.tornado_sleep(0.1)
            ticks += 1
        if alive and ticks >= max_ticks:
            self.send_signal_process(process, signal.SIGKILL, recursive=True)
        if self.stream_redirector:
            self.stream_redirector.remove_redirections(process)
        process.stopping = False
        process.stop()
        raise gen.Return(True)
    cw.Watcher.kill_process = kill_process


def _canary_kill_first():
    """kill request ignores the requested signal and uses SIGKILL when a timeout override of 0 is given"""
    import circus.commands.kill as ck
    from tornado import gen

    @gen.coroutine
    def execute(self, arbiter, props):
        watcher = self._get_watcher(arbiter, props.get('name'))
        processes = watcher.get_active_processes()
        if processes:
            yield [watcher.kill_process(p, stop_signal=props.get('signum'),
                                        graceful_timeout=watcher.graceful_timeout) for p in processes]
    ck.Kill.execute = execute


CANARIES = {
    'grace_in_whole_ticks': {'apply': _canary_int_ticks, 'conds': ['c03_grace'],
                             'shards': [{'cause': 'stop', 'gmax': 8, 'rmax': 10}],
                             'what': 'graceful_timeout truncated to whole 0.1 s ticks'},
    'kill_ignores_timeout_override': {'apply': _canary_kill_first, 'conds': ['c03_grace'],
                                      'shards': [{'cause': 'kill_override', 'gmax': 4, 'rmax': 10, 'omax': 6}],
                                      'what': 'kill request ignores its graceful_timeout override'},
}


def _lemma(tier):
    from vtlib.lemmas import wait_loop
    return wait_loop.run(tier)


LEMMAS = [_lemma]

def plan(tier):
    q = tier == 'quick'
    sh = []
    for cause in CAUSES:
        s = {'cause': cause, 'gmax': 8 if q else 20, 'rmax': 12 if q else 30}
        if cause == 'kill_override':
            s['omax'] = 5 if q else 10
            s['gmax'] = 6 if q else 10       # watcher timeouts well above the override: an override that is dropped shows
        if cause in ('decr', 'reload', 'reload_seq'):
            s['n0'] = 2 if cause != 'decr' else 1
        sh.append(s)
    sh.append({'cause': 'stop', 'children': 2, 'gmax': 4, 'rmax': 6})
    sh.append({'cause': 'stop', 'children': 2, 'gmax': 2, 'rmax': 4, 'childdeath': True, 'omax': 8})
    sh.append({'cause': 'kill', 'children': 2, 'gmax': 2, 'rmax': 4, 'childdeath': True, 'omax': 8})
    sh.append({'cause': 'kill', 'children': 1, 'grand': 1, 'gmax': 4, 'rmax': 6})
    sh.append({'cause': 'stop', 'sig': int(signal.SIGINT), 'gmax': 3, 'rmax': 4})
    sh.append({'cause': 'restart', 'sig': int(signal.SIGUSR1), 'gmax': 3, 'rmax': 4})
    return [
        Cond('c03_grace', shards=sh, budget=200 if q else 1500, twins=3,
             bounds={'gi': 'S: graceful_timeout = gi*0.05 s, gi in [0,gmax]', 'ri': 'S: reaction delay ri*0.05 s, ri in [0,rmax) ; ri = rmax: ignores the signal',
                     'oi': 'S: per-request graceful_timeout override oi*0.05 s', 'cause': 'S%r' % (CAUSES,),
                     'stop_signal': 'S{TERM, INT, USR1} (+USR2 as override)', 'children': 'S{0, 2 children, 1 child + 1 grandchild}; with childdeath the first-listed child exits at kernel call oi of the termination'}),
    ]
