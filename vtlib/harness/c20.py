"""C20 -- log files rotate by size without losing or reordering retained data.

Real code under the solver: circus.stream.file_stream.FileStream.__call__, _should_rollover,
_do_rollover, _FileStreamBase.write_data / open / close (and circus.util.to_str).
Stub: vtlib.world.fsfake (open / os.path.exists / os.remove / os.rename).
"""
import datetime

from vtlib import rt
from vtlib.driver import Cond
from vtlib.world import fsfake

PROPERTY = 'C20'
TITLE = 'Log files rotate by size without losing or reordering retained data'
FUNCTIONS = ['circus/stream/file_stream.py:FileStream.__call__',
             'circus/stream/file_stream.py:FileStream._should_rollover',
             'circus/stream/file_stream.py:FileStream._do_rollover',
             'circus/stream/file_stream.py:_FileStreamBase.write_data',
             'circus/stream/file_stream.py:_FileStreamBase.open',
             'circus/stream/file_stream.py:_FileStreamBase.close']
ASSUMPTIONS = [
    'file system = vtlib.world.fsfake: POSIX append semantics, rename replaces, remove of a missing file raises',
    'sizes are counted in characters of the text written (ASCII payloads: characters = bytes); multi-byte text is outside the bound',
    'payload text is a symbolic str whose length is a solver variable; contents are compared by identity/equality, never re-encoded',
    'datetime.now is replaced by a constant instant in the prefix condition',
]
EXPLANATION = ('C20: max_bytes and all write lengths are unbounded symbolic integers (the solver reasons over '
               'all values); backup_count and the number of writes are bounded as stated per condition.')

NAME = '/log/app.log'


def _mk(max_bytes, backup_count, time_format=None):
    fs = fsfake.FakeFS()
    undo = fsfake.install(fs)
    from circus.stream.file_stream import FileStream
    st = FileStream(filename=NAME, max_bytes=max_bytes, backup_count=backup_count,
                    time_format=time_format)
    return fs, st, undo


def _check_layout(fs, max_bytes, backup_count, nwritten, payloads, first_index=0):
    """The retained data is a contiguous, unduplicated tail of everything written."""
    # only the active file and numbered backups 1..backup_count exist
    allowed = [NAME] + ['%s.%d' % (NAME, i) for i in range(1, backup_count + 1)]
    for name in fs.files:
        if name not in allowed:
            rt.note('unexpected file %r', name)
            return False
    if NAME not in fs.files:
        rt.note('active file missing')
        return False
    if not (fs.size(NAME) < max_bytes):
        rt.note('active file reached max_bytes')
        return False
    # oldest -> newest
    seq = []
    for i in range(backup_count, 0, -1):
        n = '%s.%d' % (NAME, i)
        if n in fs.files:
            seq.extend(fs.files[n])
    seq.extend(fs.files[NAME])
    if fs.lost:
        rt.note('data written to an unlinked file')
        return False
    if not seq:
        return nwritten == 0
    idxs = [i for i, _s in seq]
    # contiguous, each once, ending with the latest write
    if idxs[-1] != first_index + nwritten - 1:
        rt.note('latest write not retained last %r', idxs)
        return False
    for a, b in zip(idxs, idxs[1:]):
        if b != a + 1:
            rt.note('retained data not contiguous %r', idxs)
            return False
    for i, s in seq:
        if i >= first_index and s is not payloads[i - first_index] and s != payloads[i - first_index]:
            rt.note('written text differs from payload %r', i)
            return False
    return True


def c20_rotate(max_bytes: int, backup_count: int, w0: str, w1: str, w2: str, w3: str, w4: str) -> bool:
    """
    pre: max_bytes >= 2
    pre: 1 <= backup_count <= 3
    pre: 1 <= len(w0) < max_bytes
    pre: 1 <= len(w1) < max_bytes
    pre: 1 <= len(w2) < max_bytes
    pre: 1 <= len(w3) < max_bytes
    pre: 1 <= len(w4) < max_bytes
    post: _
    """
    nw = rt.S.get('writes', 5)
    payloads = [w0, w1, w2, w3, w4][:nw]
    fs, st, undo = _mk(max_bytes, backup_count)
    try:
        ok = True
        for k, w in enumerate(payloads):
            st({'data': w, 'pid': 7, 'name': 'stdout'})
            if not _check_layout(fs, max_bytes, backup_count, k + 1, payloads):
                ok = False
                break
        return rt.verdict(ok)
    finally:
        undo()


def c20_deep(max_bytes: int, backup_count: int, pre: int) -> bool:
    """
    Many generations: backup_count up to 12 (two-digit backup numbers), optionally with `pre` backups already on disk,
    then 15 one-character writes with max_bytes 2 or 3 (a rollover at every write, or every second one); the layout
    invariant is checked after every write.

    pre: 2 <= max_bytes <= rt.S.get('mbmax', 3) and rt.S.get('bcmin', 8) <= backup_count <= rt.S.get('bcmax', 12)
    pre: 0 <= pre <= backup_count
    post: _
    """
    backup_count = rt.pick(backup_count, rt.S.get('bcmax', 12) + 1)
    pre = rt.pick(pre, rt.S.get('bcmax', 12) + 1)
    max_bytes = rt.pick(max_bytes, rt.S.get('mbmax', 3) + 1)
    fs = fsfake.FakeFS()
    undo = fsfake.install(fs)
    try:
        # data already on disk: backup .pre is the oldest (index -pre), .1 the newest (index -1); the active file is empty
        for i in range(pre, 0, -1):
            fs.files['%s.%d' % (NAME, i)] = [(-i, 'o')]
        fs.files[NAME] = []
        fs.windex = 0
        from circus.stream.file_stream import FileStream
        st = FileStream(filename=NAME, max_bytes=max_bytes, backup_count=backup_count)
        payloads = ['x'] * rt.S.get('writes', 15)
        ok = True
        for k, w in enumerate(payloads):
            st({'data': w, 'pid': 7, 'name': 'stdout'})
            allowed = [NAME] + ['%s.%d' % (NAME, i) for i in range(1, backup_count + 1)]
            seq = []
            for i in range(backup_count, 0, -1):
                n = '%s.%d' % (NAME, i)
                if n in fs.files:
                    seq.extend(fs.files[n])
            seq.extend(fs.files.get(NAME, []))
            idxs = [i for i, _s in seq]
            good = all(n in allowed for n in fs.files) and NAME in fs.files and fs.size(NAME) < max_bytes and not fs.lost
            good = good and bool(idxs) and idxs[-1] == k and all(y == x + 1 for x, y in zip(idxs, idxs[1:]))
            if not good:
                rt.note('backup_count %d, %d old backups, max_bytes %d: after write %d the retained indices are %r (files %r)', backup_count, pre,
                        max_bytes, k, idxs, sorted(fs.files))
                ok = False
                break
        return rt.verdict(ok)
    finally:
        undo()


UNITS = (b'a', 'e\u0301'.encode('utf-8'), '\u20ac'.encode('utf-8'))        # 1, 3 (e + combining accent) and 3 (euro sign) bytes


def c20_bytes(max_bytes: int, u0: int, k0: int, u1: int, k1: int, u2: int, k2: int, u3: int, k3: int) -> bool:
    """
    Sizes are BYTES: the redirector hands the stream the bytes read from the pipe, the file grows by their UTF-8 length.
    Four writes of 1 or 3 repetitions of a unit (ASCII letter / a 3-byte character), each write shorter than max_bytes
    in bytes; the file model counts UTF-8 bytes.

    pre: 0 <= u0 <= 1 and 0 <= u1 <= 1 and 0 <= u2 <= 1 and 0 <= u3 <= 1
    pre: 0 <= k0 <= 1 and 0 <= k1 <= 1 and 0 <= k2 <= 1 and 0 <= k3 <= 1
    pre: max_bytes > 9
    post: _
    """
    writes = [(UNITS[0], UNITS[2])[rt.pick(u, 2)] * (1, 3)[rt.pick(k, 2)] for u, k in ((u0, k0), (u1, k1), (u2, k2), (u3, k3))]
    fs, st, undo = _mk(max_bytes, 2)
    fs.byte_sizes = True
    try:
        ok = True
        for i, raw in enumerate(writes):
            st({'data': raw, 'pid': 7, 'name': 'stdout'})
            if not (fs.size(NAME) < max_bytes):
                rt.note('after write %d (%d bytes) the active file holds %d bytes, max_bytes %d', i, len(raw), fs.size(NAME), max_bytes)
                ok = False
                break
        text = ''.join(s for n in ('%s.2' % NAME, '%s.1' % NAME, NAME) if n in fs.files for _i, s in fs.files[n])
        if ok and not b''.join(writes).decode('utf-8').endswith(text):
            rt.note('retained text is not a tail of what was written')
            ok = False
        return rt.verdict(ok)
    finally:
        undo()


TIMED_LENS = (1, 7, 20)


def _tl():
    return rt.S.get('lens', TIMED_LENS)


def c20_timed_rotate(max_bytes: int, backup_count: int, n0: int, n1: int, n2: int, n3: int) -> bool:
    """
    Rotation WITH a time_format: what reaches the file is the prefixed line, so that is what must stay below max_bytes.
    Three (thorough: four) single-line payloads of lengths chosen from a menu; max_bytes is any integer for which every line
    (15-character prefix + payload + newline) is smaller than it.  (That the line has exactly this shape is c20_prefix.)

    pre: 1 <= backup_count <= 2
    pre: 0 <= n0 < len(_tl()) and 0 <= n1 < len(_tl()) and 0 <= n2 < len(_tl()) and 0 <= n3 < len(_tl())
    pre: rt.S.get('nw', 3) >= 4 or n3 == 0
    pre: max_bytes > 16 + max(_tl()[n0], _tl()[n1], _tl()[n2], _tl()[n3] if rt.S.get('nw', 3) >= 4 else 0)
    post: _
    """
    lens = [_tl()[rt.pick(n, len(_tl()))] for n in (n0, n1, n2, n3)][:rt.S.get('nw', 3)]
    payloads = ['a' * n for n in lens]
    fs, st, undo = _mk(max_bytes, backup_count, time_format='%H:%M:%S')
    try:
        st.now = lambda: _T0
        ok = True
        for k, w in enumerate(payloads):
            st({'data': w, 'pid': 7, 'name': 'stdout'})
            if not (fs.size(NAME) < max_bytes):
                rt.note('after write %d the active file holds %d characters, max_bytes %d (line length %d)', k, fs.size(NAME), max_bytes,
                        16 + len(w))
                ok = False
                break
            allowed = [NAME] + ['%s.%d' % (NAME, i) for i in range(1, backup_count + 1)]
            if [n for n in fs.files if n not in allowed] or fs.lost:
                ok = False
                break
        return rt.verdict(ok)
    finally:
        undo()


def c20_step(max_bytes: int, backup_count: int, a: str, b1: str, b2: str, b3: str,
             e1: bool, e2: bool, e3: bool, w: str) -> bool:
    """
    Inductive step: ANY file-system state satisfying the invariant (active file smaller than
    max_bytes; the existing numbered backups hold older data, higher number = older), including
    pre-existing backups left by an earlier run, plus one write, gives the invariant again.

    pre: max_bytes >= 2
    pre: 1 <= backup_count <= 3
    pre: len(a) < max_bytes
    pre: 1 <= len(w) < max_bytes
    pre: len(b1) >= 1 and len(b2) >= 1 and len(b3) >= 1
    post: _
    """
    fs = fsfake.FakeFS()
    undo = fsfake.install(fs)
    try:
        # pre-state: negative indices (oldest first) are the data already on disk
        exists = [e1, e2, e3]
        olds = [b1, b2, b3]
        pre = []
        for i in range(3, 0, -1):
            if i <= backup_count and exists[i - 1]:
                pre.append(('%s.%d' % (NAME, i), olds[i - 1]))
        if len(a) > 0:
            pre.append((NAME, a))
        first = -len(pre)
        fs.files[NAME] = []
        by_index = {0: w}
        for k, (name, s) in enumerate(pre):
            fs.files[name] = [(first + k, s)]
            by_index[first + k] = s
        fs.windex = 0
        from circus.stream.file_stream import FileStream
        st = FileStream(filename=NAME, max_bytes=max_bytes, backup_count=backup_count)
        st({'data': w, 'pid': 7, 'name': 'stdout'})
        allowed = [NAME] + ['%s.%d' % (NAME, i) for i in range(1, backup_count + 1)]
        ok = all(n in allowed for n in fs.files) and NAME in fs.files
        ok = ok and fs.size(NAME) < max_bytes and not fs.lost
        seq = []
        for i in range(backup_count, 0, -1):
            n = '%s.%d' % (NAME, i)
            if n in fs.files:
                seq.extend(fs.files[n])
        seq.extend(fs.files.get(NAME, []))
        idxs = [i for i, _s in seq]
        ok = ok and bool(idxs) and idxs[-1] == 0
        for x, y in zip(idxs, idxs[1:]):
            if y != x + 1:
                ok = False
        for i, s in seq:
            if s is not by_index[i]:
                ok = False
        return rt.verdict(ok)
    finally:
        undo()


_T0 = datetime.datetime(2020, 1, 2, 3, 4, 5)


def c20_prefix(payload: str, more: str) -> bool:
    """
    With a time_format every line carries the timestamp-and-pid prefix (two consecutive
    writes; rotation off so the file is the plain concatenation).

    pre: len(payload) <= rt.S.get('plen', 3) and all(c in 'a' + chr(10) for c in payload)
    pre: len(more) <= rt.S.get('mlen', 2) and all(c in 'a' + chr(10) for c in more)
    post: _
    """
    pid = rt.S.get('pid', 4321)
    fs, st, undo = _mk(0, 0, time_format='%H:%M:%S')
    try:
        st.now = lambda: _T0
        st({'data': payload, 'pid': pid, 'name': 'stdout'})
        pid2 = rt.S.get('pid2', pid)                 # the second chunk may come from another worker, within the same second
        st({'data': more, 'pid': pid2, 'name': 'stderr'})
        content = ''.join(s for _i, s in fs.files[NAME])
        if not content.endswith('\n'):
            return rt.verdict(False)
        lines = content[:-1].split('\n')
        want = [('03:04:05 [%d] | ' % pid, x) for x in payload.rstrip('\n').split('\n')] + \
               [('03:04:05 [%d] | ' % pid2, x) for x in more.rstrip('\n').split('\n')]
        ok = len(lines) == len(want)
        for ln, (prefix, w) in zip(lines, want):
            if not ln.startswith(prefix) or ln[len(prefix):] != w:
                ok = False
        return rt.verdict(ok)
    finally:
        undo()


def c20_append(w0: str, w1: str, w2: str, reopen_at: int) -> bool:
    """
    Without rotation settings the file is an exact append-only copy, also across close / open.

    pre: 0 <= reopen_at <= 3
    pre: len(w0) <= 4 and len(w1) <= 4 and len(w2) <= 4
    post: _
    """
    fs, st, undo = _mk(0, 0)
    try:
        ws = [w0, w1, w2]
        for k, w in enumerate(ws):
            if k == reopen_at:
                st.close()
                st.open()
            st({'data': w, 'pid': 1, 'name': 'stdout'})
        if reopen_at == 3:
            st.close()
            st.open()
        chunks = fs.files[NAME]
        ok = [i for i, _s in chunks] == [0, 1, 2] and all(s is w for (_i, s), w in zip(chunks, ws))
        ok = ok and list(fs.files) == [NAME] and not fs.lost
        return rt.verdict(ok)
    finally:
        undo()


# ---------------------------------------------------------------------------------------------

def _canary_gt():
    """`>=` -> `>` in _should_rollover: the active file may reach max_bytes."""
    from circus.stream.file_stream import FileStream

    def _should_rollover(self, raw_data):
        if self._file is None:
            self._file = self._open()
        if self._max_bytes > 0:
            self._file.seek(0, 2)
            if self._file.tell() + len(raw_data) > self._max_bytes:
                return 1
        return 0
    FileStream._should_rollover = _should_rollover


def _canary_shift():
    """rollover shifts a backup only into a free slot: a middle generation is overwritten."""
    import circus.stream.file_stream as m
    from circus.stream.file_stream import FileStream

    def _do_rollover(self):
        if self._file:
            self._file.close()
            self._file = None
        if self._backup_count > 0:
            for i in range(self._backup_count - 1, 0, -1):
                sfn = "%s.%d" % (self._filename, i)
                dfn = "%s.%d" % (self._filename, i + 1)
                if m.os.path.exists(sfn) and not m.os.path.exists(dfn):
                    m.os.rename(sfn, dfn)
            dfn = self._filename + ".1"
            if m.os.path.exists(dfn):
                m.os.remove(dfn)
            m.os.rename(self._filename, dfn)
        self._file = self._open()
    FileStream._do_rollover = _do_rollover


def _canary_prefix():
    """continuation lines lose their prefix."""
    from circus.stream.file_stream import _FileStreamBase
    from circus.util import to_str

    def format_data(self, data):
        file_data = to_str(data['data'])
        if self._time_format is not None:
            time = self.now().strftime(self._time_format)
            prefix = '{time} [{pid}] | '.format(time=time, pid=data['pid'])
            file_data = prefix + file_data.rstrip('\n')
            file_data += '\n'
        return file_data

    def write_data(self, data):
        file_data = format_data(self, data)
        self._file.write(file_data)
        self._file.flush()
    # since fix a5e0f6b the prefix is applied by format_data (used by __call__ and by write_data); the canary used to replace
    # write_data only, which is no longer on FileStream's path, and went unnoticed ("0/1")
    if hasattr(_FileStreamBase, 'format_data'):
        _FileStreamBase.format_data = format_data
    else:
        _FileStreamBase.write_data = write_data


CANARIES = {
    'rollover_gt': {'apply': _canary_gt, 'conds': ['c20_rotate', 'c20_step'],
                    'what': '_should_rollover uses > instead of >='},
    'shift_short': {'apply': _canary_shift, 'conds': ['c20_rotate', 'c20_step'], 'shards': [{'writes': 4}],
                    'what': '_do_rollover shifts only into free slots (loses a middle generation)'},
    'prefix_first_line_only': {'apply': _canary_prefix, 'conds': ['c20_prefix'],
                               'what': 'only the first line of a chunk gets the prefix'},
}


def plan(tier):
    nw = [{'writes': 3}, {'writes': 4}] if tier == 'quick' else [{'writes': 3}, {'writes': 4}, {'writes': 5}]
    return [
        Cond('c20_rotate', shards=nw, budget=120 if tier == 'quick' else 900,
             bounds={'max_bytes': 'R[2, +inf)', 'backup_count': 'R[1,3]',
                     'len(w_i)': 'R[1, max_bytes)', 'writes': 'S{3,4}' if tier == 'quick' else 'S{3,4,5}'},
             smoke=[({'writes': 5}, dict(max_bytes=10, backup_count=2, w0='aaaa', w1='bbbbbb',
                                        w2='c', w3='ddddddddd', w4='ee'))]),
        Cond('c20_step', budget=120 if tier == 'quick' else 600,
             bounds={'max_bytes': 'R[2, +inf)', 'backup_count': 'R[1,3]', 'pre-existing files': 'any subset of .1..3 with any sizes',
                     'active size': 'R[0, max_bytes)', 'len(w)': 'R[1, max_bytes)'}),
        Cond('c20_bytes', budget=120,
             bounds={'max_bytes': 'R: every integer > 9', 'writes': 'S: 4 writes of 1 or 3 repetitions of {ASCII letter, 3-byte character}'}),
        Cond('c20_deep', budget=120 if tier == 'quick' else 600,
             shards=[{}] if tier == 'quick' else [{'bcmin': 1, 'bcmax': 7, 'mbmax': 4, 'writes': 20}, {'bcmin': 8, 'bcmax': 11, 'mbmax': 4, 'writes': 30},
                                                  {'bcmin': 12, 'bcmax': 14, 'mbmax': 4, 'writes': 36}],
             bounds={'backup_count': 'S[8,12] (thorough [1,14])', 'pre-existing backups': 'S[0,backup_count]', 'max_bytes': 'S{2,3} (thorough {2,3,4})',
                     'writes': '15 (thorough 20-36) of one character'}),
        Cond('c20_timed_rotate', budget=120 if tier == 'quick' else 600,
             shards=[{}] if tier == 'quick' else [{}, {'nw': 4}, {'lens': (1, 2, 7, 20, 43)}],
             bounds={'max_bytes': 'R: every integer larger than the longest line', 'backup_count': 'R[1,2]',
                     'n_i': 'S: 3 (thorough also 4) payload lengths from %r (thorough also (1, 2, 7, 20, 43))' % (TIMED_LENS,),
                     'time_format': '%H:%M:%S (prefix of 15 characters)'}),
        Cond('c20_prefix', shards=([{'pid': 4321, 'plen': 2, 'mlen': 1}, {'pid': 1, 'pid2': 4321, 'plen': 2, 'mlen': 1}]
                                   if tier == 'quick' else [{'pid': 4321}, {'pid': 1}, {'pid': 1, 'pid2': 4321}, {'pid': 4321, 'pid2': 4322}]),
             budget=120 if tier == 'quick' else 600,
             bounds={'payload': "R: all strings over {a, newline}, len <= 2 (thorough 3)",
                     'more': 'R: len <= 1 (thorough 2)',
                     'pid': 'S{1, 4321}; second chunk from the same or another pid (4321 / 4322)'}),
        Cond('c20_append', budget=60 if tier == 'quick' else 300,
             bounds={'w_i': 'R: any str, len <= 4', 'reopen_at': 'R[0,3]'}),
    ]
