"""C18 -- signals reach exactly the addressed workers, with the signal that was named.

Part 1 (this file, pure): signal designations. Real code under the solver: circus.util.to_signum,
circus.commands.kill.Kill.validate, circus.commands.sendsignal.Signal.validate,
circus.commands.util.convert_option.  Part 2 (confinement) runs on the simulated world, see
c18_confinement below.
"""
import signal

from vtlib import rt
from vtlib.driver import Cond

PROPERTY = 'C18'
TITLE = 'Signals reach exactly the addressed workers, with the signal that was named'
FUNCTIONS = ['circus/util.py:to_signum', 'circus/commands/kill.py:Kill.validate',
             'circus/commands/sendsignal.py:Signal.validate', 'circus/commands/util.py:convert_option',
             'circus/watcher.py:Watcher.send_signal', 'circus/watcher.py:Watcher.send_signal_child',
             'circus/watcher.py:Watcher.send_signal_children', 'circus/process.py:Process.send_signal_child',
             'circus/process.py:Process.send_signal_children', 'circus/commands/kill.py:Kill.execute',
             'circus/commands/sendsignal.py:Signal.execute']
ASSUMPTIONS = [
    'designations are ASCII strings (non-ASCII text is outside the bound)',
    'numeric designations denote whatever Python int() yields for the text (interpretive choice, DESIGN.md section 7)',
    'NAME+n is accepted for every signal name (the documentation shows SIGRTMIN+1); it denotes signal.NAME + n',
]
EXPLANATION = ('C18 designations: three layers -- (i) every one-character neighbourhood u+NAME+t of real designations, meant to '
               'be exhausted per shard; (ii) free short strings, bounded bug hunting; (iii) a z3 regular-language inclusion '
               'lemma generated from the AST of util.to_signum with no length bound. ')

# the independent oracle ---------------------------------------------------------------------
SIGNALS = {n: int(v) for n, v in signal.Signals.__members__.items()}   # aliases (SIGCLD, SIGPOLL, SIGIOT) included


def spec(s):
    """-> the signal number the designation ``s`` denotes, or None if it must be refused."""
    if isinstance(s, bool):
        return None
    if isinstance(s, int):
        return s
    if not isinstance(s, str):
        return None
    try:
        return int(s)
    except ValueError:
        pass
    base, plus, off = s.partition('+')
    if plus:
        if len(off) == 0:
            return None
        for ch in off:
            if ch not in '0123456789':
                return None
    name = base.upper()
    if not name.startswith('SIG'):
        name = 'SIG' + name
    if name in SIGNALS:
        return SIGNALS[name] + (int(off) if plus else 0)
    return None


def _impl(s):
    """-> ('ok', n) or ('refused', None) for every entry point that accepts a designation."""
    from circus.util import to_signum
    from circus.commands.kill import Kill
    from circus.commands.sendsignal import Signal
    from circus.commands.util import convert_option
    res = []
    for which in ('to_signum', 'kill', 'signal', 'convert_option'):
        try:
            if which == 'to_signum':
                v = to_signum(s)
            elif which == 'kill':
                p = {'name': 'w', 'signum': s}
                Kill().validate(p)
                v = p['signum']
            elif which == 'signal':
                p = {'name': 'w', 'signum': s}
                Signal().validate(p)
                v = p['signum']
            else:
                v = convert_option('stop_signal', s)
            res.append((which, 'ok', v))
        except Exception:
            res.append((which, 'refused', None))
    return res


def _agrees(s):
    want = spec(s)
    for which, st, v in _impl(s):
        if want is None:
            if st != 'refused':
                rt.note('%s accepted %r as %r; it must be refused', which, s, v)
                return False
        else:
            if st != 'ok' or v != want:
                rt.note('%s(%r) -> %s %r; it denotes %r', which, s, st, v, want)
                return False
    return True


FRINGE = ('', ' ', 'x', 'S', '1', '_', '+', '-', '.', chr(10), chr(0), 'G+')


def c18_neighbourhood(i: int, j: int) -> bool:
    """
    Every string u + CORE + t, CORE a real designation or a non-signal name (shard), u = FRINGE[i] and
    t = FRINGE[j] selected by the solver: one representative per character class the code distinguishes
    (empty, blank, letter, digit, underscore, plus, minus, dot, newline, NUL) -- every near miss of CORE.
    (Symbolic str fringes were measured not to be exhaustible: 17 paths in 300 s, DESIGN.md 1.12.)

    pre: 0 <= i < len(FRINGE) and 0 <= j < len(FRINGE)
    post: _
    """
    s = FRINGE[i] + rt.S['core'] + FRINGE[j]
    return rt.verdict(_agrees(s))


def c18_free(s: str) -> bool:
    """
    Free short strings (bounded bug hunting; not expected to be exhausted).

    pre: len(s) <= rt.S.get('maxlen', 3)
    pre: all(32 <= ord(c) < 127 for c in s)
    post: _
    """
    return rt.verdict(_agrees(s))


def c18_number(n: int) -> bool:
    """
    Integer designations (as JSON numbers) denote themselves at every entry point.

    post: _
    """
    return rt.verdict(_agrees(n))


# ---------------------------------------------------------------------------------------------
# Part 2: confinement
PIDSEL = ('absent', 'own0', 'own1', 'other_watcher', 'unrelated', 'dead', 'zero', 'minus1', 'string_own', 'child_of_own', 'daemon')
CHILDSEL = ('absent', 'child0', 'grandchild0', 'child_of_other', 'own1', 'unrelated', 'zero', 'string_child')
STATES = ('active', 'stopped', 'stopping', 'one_killed', 'other_stopping', 'after_recursive')
SIGS = (15, 'usr1', 'SIGHUP', 9, '10', 0)          # 0: the null signal (existence probe) is a designation like any other


def c18_confinement(cmd: int, ps: int, cs: int, ch: bool, rec: bool, st: int, sg: int, sc: int, vd: int) -> bool:
    """
    A signal / kill request can only ever signal workers of the NAMED watcher or their descendants, with exactly the
    designated signal; a refused request signals nobody.

    pre: 0 <= cmd <= 1 and ps == rt.S['ps'] and 0 <= cs < len(CHILDSEL) and 0 <= st < len(STATES) and 0 <= sg < len(SIGS)
    pre: 0 <= sc <= 1 and (sc == 0 or (cmd == 1 and st == 0))
    pre: 0 <= vd <= 8 and (vd == 0 or sc == 1)
    pre: st != 4 or (cmd == 0 and (cs == 3 or ps == 3))
    pre: st != 5 or (cmd == 0 and cs in (1, 2) and ps == 1)
    post: _
    """
    from vtlib.harness.scen import World, Beh
    from vtlib.harness import scen
    from vtlib.world import core
    cmd = rt.pick(cmd, 2)
    ps = rt.pick(ps, len(PIDSEL))
    cs = rt.pick(cs, len(CHILDSEL))
    st = rt.pick(st, len(STATES))
    sg = rt.pick(sg, len(SIGS))
    sc = rt.pick(sc, 2)
    with World() as w:
        k = w.kernel
        k.behaviour = lambda i, argv: Beh(obey=None, nchildren=2 if sc else 1, grandchildren=0 if sc else 1, child_obey=None)
        wa = w.mk_watcher('a', numprocesses=2, graceful_timeout=0.3, stop_children=bool(sc))
        wb = w.mk_watcher('b', numprocesses=1, graceful_timeout=0.3, stop_children=True)
        w.boot([wa, wb], check_delay=-1)
        own = k.alive_pids('a')
        other = k.alive_pids('b')
        unrelated = k.add_external(obey=None).pid
        dead = k.add_external(obey=0.0)
        k.external_kill(dead.pid)
        orphan = []
        try:
            if STATES[st] == 'stopped':
                w.call('stop', name='a', waiting=True, match='simple', max_time=10.0)
            elif STATES[st] == 'stopping':
                w.send('stop', name='a', match='simple')        # stubborn workers: the stop is in its grace period
            elif STATES[st] == 'one_killed':
                # a worker was just terminated by a kill request: dead and reaped by poll(), its table entry not yet dropped
                w.call('kill', name='a', pid=own[0], waiting=True, graceful_timeout=0.1, max_time=10.0)
                w.run_for(0.01)
            elif STATES[st] == 'after_recursive':
                # an earlier request signalled the first worker's whole tree; then its child exits and the grandchild is re-parented to
                # init: it is no descendant of any worker any more, whatever handles were seen earlier
                w.call('signal', name='a', pid=own[0], signum='usr2', recursive=True, max_time=5.0)
                kids_ = [c.pid for c in k.children_of(own[0], False)]
                orphan = [c.pid for c in k.children_of(own[0], True) if c.pid not in kids_]
                if kids_:
                    k.external_kill(kids_[0])
                w.run_for(0.01)
            elif STATES[st] == 'other_stopping':
                # the OTHER watcher is in the grace period of a stop that listed its workers' children (stop_children)
                w.send('stop', name='b', match='simple')
            allowed = set()
            for p in own:
                allowed.add(p)
                allowed.update(c.pid for c in k.children_of(p, True))
            child0 = [c.pid for c in k.children_of(own[0], False)]
            grand0 = [c.pid for c in k.children_of(own[0], True) if c.pid not in child0]
            pidv = {'absent': None, 'own0': own[0], 'own1': own[1], 'other_watcher': other[0], 'unrelated': unrelated, 'dead': dead.pid,
                    'zero': 0, 'minus1': -1, 'string_own': str(own[0]), 'child_of_own': child0[0] if child0 else 1,
                    'daemon': 1000}[PIDSEL[ps]]
            childv = {'absent': None, 'child0': child0[0] if child0 else 1, 'grandchild0': grand0[0] if grand0 else 1,
                      'child_of_other': [c.pid for c in k.children_of(other[0], False)][0], 'own1': own[1], 'unrelated': unrelated, 'zero': 0,
                      'string_child': str(child0[0]) if child0 else '1'}[CHILDSEL[cs]]
            if STATES[st] == 'after_recursive' and orphan:
                childv = orphan[0]            # the former grandchild, now a child of init
            props = {'name': 'a'}
            if pidv is not None:
                props['pid'] = pidv
            sig = SIGS[sg]
            want = spec(sig)
            vanished = None
            if sc and vd > 0 and child0:
                # the first-listed child of the first worker exits by itself at kernel call vd of the request
                vanished = child0[0]
                k.injections.append({'at_call': k.calls + vd, 'victim': ('pid', vanished), 'status': core.status_exit(0)})
            n0 = len(k.signal_log)
            if cmd == 0:
                props['signum'] = sig
                if childv is not None:
                    props['childpid'] = childv
                if ch:
                    props['children'] = True
                if rec:
                    props['recursive'] = True
                r = w.call('signal', max_time=5.0, **props)
            else:
                props['signum'] = sig
                props['graceful_timeout'] = 0.2
                r = w.call('kill', waiting=True, max_time=10.0, **props)
            added = [s for s in k.signal_log[n0:]]
            if STATES[st] in ('stopping', 'other_stopping'):
                # the stop in flight signals too: only entries carrying the requested (distinct) signal are attributed to the request
                added = [s for s in added if s['sig'] == want and want not in (15, 9)]
            ok = True
            for s in added:
                if s['pid'] not in allowed:
                    rt.note('%s %r signalled pid %r (signal %r) which is not a worker of watcher a nor a descendant of one', ('signal', 'kill')[cmd],
                            props, s['pid'], s['sig'])
                    ok = False
                if cmd == 0 and s['sig'] != want:
                    rt.note('signal request for %r delivered signal %r', sig, s['sig'])
                    ok = False
                after_sigkill = s['sig'] == 15 and [x for x in added if x['pid'] == s['pid'] and x['sig'] == 9 and x['call'] < s['call']]
                if cmd == 1 and s['sig'] not in (want, 9) and not after_sigkill:       # Process.stop() terminate()s once more after the SIGKILL
                    rt.note('kill request with signum %r delivered signal %r', sig, s['sig'])
                    ok = False
            if sc and cmd == 1 and r.replies and r.status == 'ok' and want not in (9,):
                # stop_children: the children of every addressed worker are addressed too -- each one that did not leave by itself
                targets = [own[0]] if PIDSEL[ps] in ('own0', 'string_own') else ([own[1]] if PIDSEL[ps] == 'own1' else
                                                                                  (own if PIDSEL[ps] == 'absent' else []))
                for wp in targets:
                    for c in k.children_of(wp, False) + [k.procs[x] for x in ([vanished] if vanished else []) if k.procs[x].orig_ppid == wp]:
                        if c.pid == vanished and k.procs[c.pid].death_how == 'injected':
                            continue
                        if not [x for x in added if x['pid'] == c.pid and x['sig'] == want]:
                            rt.note('kill %r with stop_children: child %d of worker %d never received signal %r (delivered: %r)', props, c.pid, wp,
                                    want, [(x['pid'], x['sig']) for x in added])
                            ok = False
            if r.replies and r.status == 'error' and added and cmd == 0:
                if not (PIDSEL[ps] == 'absent' and (ch or childv is not None)):
                    rt.note('refused signal request %r (%r) nevertheless signalled %r', props, r.reply.get('reason'), [(s['pid'], s['sig']) for s in added])
                    ok = False
            # addressed processes do get it (positive control)
            if cmd == 0 and STATES[st] == 'active' and PIDSEL[ps] == 'own0' and childv is None and not ch and r.status == 'ok':
                if not [s for s in added if s['pid'] == own[0]]:
                    rt.note('signal to own worker %r was not delivered', own[0])
                    ok = False
            if cmd == 0 and STATES[st] in ('active', 'one_killed') and PIDSEL[ps] == 'absent' and childv is None and not ch:
                live_now = [p for p in own if k.procs[p].state == 'alive' or
                            (k.procs[p].die_at is not None and [x for x in added if x['pid'] == p])]
                live_before = [p for p in own if p in k.alive_pids('a') or [x for x in added if x['pid'] == p]]
                got_it = sorted(set(s['pid'] for s in added if s['pid'] in own))
                expect = sorted(p for p in own if not (STATES[st] == 'one_killed' and p == own[0]))
                if got_it != expect or r.status != 'ok':
                    rt.note('broadcast signal (%r): reply %r, delivered to %r, live workers of the watcher %r', sig, r.reply.get('status'),
                            got_it, expect)
                    ok = False
            return rt.verdict(ok)
        except (scen.Diverged, scen.BlockedLoop):
            return rt.skip()


def _cores(tier):
    names = ['TERM', 'KILL', 'HUP', 'INT', 'QUIT', 'USR1', 'USR2', 'CHLD', 'RTMIN', 'RTMAX', 'STOP', 'CLD', 'POLL', 'IOT']
    if tier == 'thorough':
        names = sorted(n[3:] for n in SIGNALS)
    cores = []
    for n in names:
        for pre in ('', 'SIG'):
            full = pre + n
            for sp in (full.upper(), full.lower(), full.capitalize()):
                if sp not in cores:
                    cores.append(sp)
    cores += ['RTMIN+1', 'sigrtmin+3', 'SIGRTMIN+10', 'TERM+0', '9', '15', '0', '-1', '015', '1_0']
    # names of the signal module that are NOT signals: must be refused in every spelling
    cores += ['SIG_IGN', 'SIG_DFL', 'SIG_BLOCK', '_IGN', '_dfl', '_UNBLOCK', 'SIG_SETMASK', 'ITIMER_REAL', 'NSIG',
              'Signals', 'SIG', 'sig', '']
    return cores


def _canary_loose():
    """pre-fix behaviour: unanchored match, any attribute of the signal module accepted."""
    import re
    import circus.util as u
    import circus.commands.kill as k
    import circus.commands.sendsignal as ss
    import circus.commands.util as cu

    def to_signum(signum):
        try:
            return int(signum)
        except ValueError:
            pass
        m = re.match(r'(\w+)(\+(\d+))?', signum)
        if m:
            name = m.group(1).upper()
            if not name.startswith('SIG'):
                name = 'SIG' + name
            offset = int(m.group(3)) if m.group(3) else 0
            try:
                return getattr(signal, name) + offset
            except (KeyError, AttributeError):
                pass
        raise ValueError('signal invalid: {}'.format(signum))
    u.to_signum = k.to_signum = ss.to_signum = to_signum
    cu.util.to_signum = to_signum


def _canary_case():
    """name lookup forgets to upper-case: lower-case names are refused."""
    import re
    import circus.util as u
    import circus.commands.kill as k
    import circus.commands.sendsignal as ss

    def to_signum(signum):
        try:
            return int(signum)
        except ValueError:
            pass
        m = re.fullmatch(r'(\w+)(\+(\d+))?', signum)
        if m:
            name = m.group(1)
            if not name.startswith('SIG'):
                name = 'SIG' + name
            offset = int(m.group(3)) if m.group(3) else 0
            sig = getattr(signal, name, None)
            if isinstance(sig, signal.Signals):
                return sig + offset
        raise ValueError('signal invalid: {}'.format(signum))
    u.to_signum = k.to_signum = ss.to_signum = to_signum


def _canary_signal_any_pid():
    """send_signal forgets the ownership check"""
    import circus.watcher as cw
    import psutil

    def send_signal(self, pid, signum):
        if pid in self.processes:
            self.processes[pid].send_signal(signum)
        else:
            for w_ in self.arbiter.watchers:
                if pid in w_.processes:
                    w_.processes[pid].send_signal(signum)
    cw.Watcher.send_signal = send_signal


def _canary_list_all():
    """pid-less signal iterates the table instead of the active pids (a reaped entry aborts the broadcast)"""
    import circus.commands.sendsignal as ss
    orig = ss.Signal.execute

    def execute(self, arbiter, props):
        watcher = self._get_watcher(arbiter, props.get('name'))
        if 'pid' not in props:
            props = dict(props, pid=None)
            real = watcher.get_active_pids
            watcher.get_active_pids = lambda: list(watcher.processes)
            props.pop('pid')
            try:
                return orig(self, arbiter, props)
            finally:
                watcher.get_active_pids = real
        return orig(self, arbiter, props)
    ss.Signal.execute = execute


CANARIES = {
    'signal_reaches_other_watchers': {'apply': _canary_signal_any_pid, 'conds': ['c18_confinement'], 'shards': [{'ps': 3}],
                                      'what': 'Watcher.send_signal delivers to a pid owned by another watcher'},
    'unanchored_any_attr': {'apply': _canary_loose, 'conds': ['c18_neighbourhood'],
                            'shards': [{'core': 'TERM'}, {'core': '_IGN'}],
                            'what': 'to_signum with re.match (unanchored) and any signal-module attribute'},
    'no_upper': {'apply': _canary_case, 'conds': ['c18_neighbourhood'], 'shards': [{'core': 'term'}],
                 'what': 'to_signum without upper-casing'},
}


def _lemma_language(tier):
    from vtlib.lemmas import signum_language
    return signum_language.run(tier)


LEMMAS = [_lemma_language]


def plan(tier):
    cores = _cores(tier)
    q = tier == 'quick'
    return [
        Cond('c18_neighbourhood', shards=[{'core': c} for c in cores], budget=120 if q else 600,
             twins=3,
             bounds={'core': 'S: %d real designations / non-signal names in several spellings' % len(cores),
                     'i': 'S: index into FRINGE (12 class representatives)', 'j': 'S: index into FRINGE'},
             smoke=[({'core': 'TERM'}, {'i': 0, 'j': 0}), ({'core': 'sigkill'}, {'i': 0, 'j': 0}),
                    ({'core': 'IGRTMIN+1'}, {'i': 3, 'j': 0})]),
        Cond('c18_free', kind='hunt', shards=[{'maxlen': 3}] if q else [{'maxlen': 3}, {'maxlen': 4}, {'maxlen': 5}],
             budget=60 if q else 900, bounds={'s': 'R: any printable-ASCII string, len <= maxlen'}),
        Cond('c18_number', budget=60, bounds={'n': 'R: all integers'}),
        Cond('c18_confinement', shards=[{'ps': i} for i in range(len(PIDSEL))], budget=240 if q else 1200, twins=2,
             bounds={'command': 'S{signal, kill}', 'pid': 'S%r' % (PIDSEL,), 'childpid': 'S%r' % (CHILDSEL,), 'children,recursive': 'S{False, True}',
                     'state': 'S%r' % (STATES,), 'signal': 'S%r' % (SIGS,), 'stop_children of the named watcher': 'S{off, on (kill, active; two children per worker, the first may exit at kernel call vd)}', 'process tree': 'every worker has one child and one grandchild'}),
    ]
