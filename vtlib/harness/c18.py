"""C18 -- signals reach exactly the addressed workers, with the signal that was named.

Part 1 (this file, pure): signal designations. Real code under the solver: circus.util.to_signum,
circus.commands.kill.Kill.validate, circus.commands.sendsignal.Signal.validate,
circus.commands.util.convert_option.  Part 2 (confinement) runs on the simulated world, see
c18_confinement below.
"""
import signal

from vtlib import rt
from vtlib.driver import Cond

PROPERTY = 'C18'
TITLE = 'Signals reach exactly the addressed workers, with the signal that was named'
FUNCTIONS = ['circus/util.py:to_signum', 'circus/commands/kill.py:Kill.validate',
             'circus/commands/sendsignal.py:Signal.validate', 'circus/commands/util.py:convert_option',
             'circus/watcher.py:Watcher.send_signal', 'circus/watcher.py:Watcher.send_signal_child',
             'circus/watcher.py:Watcher.send_signal_children', 'circus/process.py:Process.send_signal_child',
             'circus/process.py:Process.send_signal_children', 'circus/commands/kill.py:Kill.execute',
             'circus/commands/sendsignal.py:Signal.execute']
ASSUMPTIONS = [
    'designations are ASCII strings (non-ASCII text is outside the bound)',
    'numeric designations denote whatever Python int() yields for the text (interpretive choice, DESIGN.md section 7)',
    'NAME+n is accepted for every signal name (the documentation shows SIGRTMIN+1); it denotes signal.NAME + n',
]
EXPLANATION = ('C18 designations: three layers -- (i) every one-character neighbourhood u+NAME+t of real designations, meant to '
               'be exhausted per shard; (ii) free short strings, bounded bug hunting; (iii) a z3 regular-language inclusion '
               'lemma generated from the AST of util.to_signum with no length bound. ')

# the independent oracle ---------------------------------------------------------------------
SIGNALS = {n: int(v) for n, v in signal.Signals.__members__.items()}   # aliases (SIGCLD, SIGPOLL, SIGIOT) included


def spec(s):
    """-> the signal number the designation ``s`` denotes, or None if it must be refused."""
    if isinstance(s, bool):
        return None
    if isinstance(s, int):
        return s
    if not isinstance(s, str):
        return None
    try:
        return int(s)
    except ValueError:
        pass
    base, plus, off = s.partition('+')
    if plus:
        if len(off) == 0:
            return None
        for ch in off:
            if ch not in '0123456789':
                return None
    name = base.upper()
    if not name.startswith('SIG'):
        name = 'SIG' + name
    if name in SIGNALS:
        return SIGNALS[name] + (int(off) if plus else 0)
    return None


def _impl(s):
    """-> ('ok', n) or ('refused', None) for every entry point that accepts a designation."""
    from circus.util import to_signum
    from circus.commands.kill import Kill
    from circus.commands.sendsignal import Signal
    from circus.commands.util import convert_option
    res = []
    for which in ('to_signum', 'kill', 'signal', 'convert_option'):
        try:
            if which == 'to_signum':
                v = to_signum(s)
            elif which == 'kill':
                p = {'name': 'w', 'signum': s}
                Kill().validate(p)
                v = p['signum']
            elif which == 'signal':
                p = {'name': 'w', 'signum': s}
                Signal().validate(p)
                v = p['signum']
            else:
                v = convert_option('stop_signal', s)
            res.append((which, 'ok', v))
        except Exception:
            res.append((which, 'refused', None))
    return res


def _agrees(s):
    want = spec(s)
    for which, st, v in _impl(s):
        if want is None:
            if st != 'refused':
                rt.note('%s accepted %r as %r; it must be refused', which, s, v)
                return False
        else:
            if st != 'ok' or v != want:
                rt.note('%s(%r) -> %s %r; it denotes %r', which, s, st, v, want)
                return False
    return True


FRINGE = ('', ' ', 'x', 'S', '1', '_', '+', '-', '.', chr(10), chr(0), 'G+')


def c18_neighbourhood(i: int, j: int) -> bool:
    """
    Every string u + CORE + t, CORE a real designation or a non-signal name (shard), u = FRINGE[i] and
    t = FRINGE[j] selected by the solver: one representative per character class the code distinguishes
    (empty, blank, letter, digit, underscore, plus, minus, dot, newline, NUL) -- every near miss of CORE.
    (Symbolic str fringes were measured not to be exhaustible: 17 paths in 300 s, DESIGN.md 1.12.)

    pre: 0 <= i < len(FRINGE) and 0 <= j < len(FRINGE)
    post: _
    """
    s = FRINGE[i] + rt.S['core'] + FRINGE[j]
    return rt.verdict(_agrees(s))


def c18_free(s: str) -> bool:
    """
    Free short strings (bounded bug hunting; not expected to be exhausted).

    pre: len(s) <= rt.S.get('maxlen', 3)
    pre: all(32 <= ord(c) < 127 for c in s)
    post: _
    """
    return rt.verdict(_agrees(s))


def c18_number(n: int) -> bool:
    """
    Integer designations (as JSON numbers) denote themselves at every entry point.

    post: _
    """
    return rt.verdict(_agrees(n))


# ---------------------------------------------------------------------------------------------
def _cores(tier):
    names = ['TERM', 'KILL', 'HUP', 'INT', 'QUIT', 'USR1', 'USR2', 'CHLD', 'RTMIN', 'RTMAX', 'STOP', 'CLD', 'POLL', 'IOT']
    if tier == 'thorough':
        names = sorted(n[3:] for n in SIGNALS)
    cores = []
    for n in names:
        for pre in ('', 'SIG'):
            full = pre + n
            for sp in (full.upper(), full.lower(), full.capitalize()):
                if sp not in cores:
                    cores.append(sp)
    cores += ['RTMIN+1', 'sigrtmin+3', 'SIGRTMIN+10', 'TERM+0', '9', '15', '0', '-1', '015', '1_0']
    # names of the signal module that are NOT signals: must be refused in every spelling
    cores += ['SIG_IGN', 'SIG_DFL', 'SIG_BLOCK', '_IGN', '_dfl', '_UNBLOCK', 'SIG_SETMASK', 'ITIMER_REAL', 'NSIG',
              'Signals', 'SIG', 'sig', '']
    return cores


def _canary_loose():
    """pre-fix behaviour: unanchored match, any attribute of the signal module accepted."""
    import re
    import circus.util as u
    import circus.commands.kill as k
    import circus.commands.sendsignal as ss
    import circus.commands.util as cu

    def to_signum(signum):
        try:
            return int(signum)
        except ValueError:
            pass
        m = re.match(r'(\w+)(\+(\d+))?', signum)
        if m:
            name = m.group(1).upper()
            if not name.startswith('SIG'):
                name = 'SIG' + name
            offset = int(m.group(3)) if m.group(3) else 0
            try:
                return getattr(signal, name) + offset
            except (KeyError, AttributeError):
                pass
        raise ValueError('signal invalid: {}'.format(signum))
    u.to_signum = k.to_signum = ss.to_signum = to_signum
    cu.util.to_signum = to_signum


def _canary_case():
    """name lookup forgets to upper-case: lower-case names are refused."""
    import re
    import circus.util as u
    import circus.commands.kill as k
    import circus.commands.sendsignal as ss

    def to_signum(signum):
        try:
            return int(signum)
        except ValueError:
            pass
        m = re.fullmatch(r'(\w+)(\+(\d+))?', signum)
        if m:
            name = m.group(1)
            if not name.startswith('SIG'):
                name = 'SIG' + name
            offset = int(m.group(3)) if m.group(3) else 0
            sig = getattr(signal, name, None)
            if isinstance(sig, signal.Signals):
                return sig + offset
        raise ValueError('signal invalid: {}'.format(signum))
    u.to_signum = k.to_signum = ss.to_signum = to_signum


CANARIES = {
    'unanchored_any_attr': {'apply': _canary_loose, 'conds': ['c18_neighbourhood'],
                            'shards': [{'core': 'TERM'}, {'core': '_IGN'}],
                            'what': 'to_signum with re.match (unanchored) and any signal-module attribute'},
    'no_upper': {'apply': _canary_case, 'conds': ['c18_neighbourhood'], 'shards': [{'core': 'term'}],
                 'what': 'to_signum without upper-casing'},
}


def _lemma_language(tier):
    from vtlib.lemmas import signum_language
    return signum_language.run(tier)


LEMMAS = [_lemma_language]


def plan(tier):
    cores = _cores(tier)
    q = tier == 'quick'
    return [
        Cond('c18_neighbourhood', shards=[{'core': c} for c in cores], budget=120 if q else 600,
             twins=3,
             bounds={'core': 'S: %d real designations / non-signal names in several spellings' % len(cores),
                     'i': 'S: index into FRINGE (12 class representatives)', 'j': 'S: index into FRINGE'},
             smoke=[({'core': 'TERM'}, {'i': 0, 'j': 0}), ({'core': 'sigkill'}, {'i': 0, 'j': 0}),
                    ({'core': 'IGRTMIN+1'}, {'i': 3, 'j': 0})]),
        Cond('c18_free', kind='hunt', shards=[{'maxlen': 3}] if q else [{'maxlen': 3}, {'maxlen': 4}, {'maxlen': 5}],
             budget=60 if q else 900, bounds={'s': 'R: any printable-ASCII string, len <= maxlen'}),
        Cond('c18_number', budget=60, bounds={'n': 'R: all integers'}),
    ]
