"""C04 -- process accounting is exact: no leaked, untracked or phantom worker.

Real code under the solver: Watcher.spawn_process (register / hook failure / spawn failure paths), reap_process,
manage_processes, get_active_processes, _start/_stop, Arbiter.reap_processes / manage_watchers / add / rm,
the list / numprocesses / status / stats commands.  World: vtlib.world.
"""
from vtlib import rt
from vtlib.driver import Cond
from vtlib.harness import scen
from vtlib.harness.scen import World, Beh, Sched
from vtlib.world import core

PROPERTY = 'C04'
TITLE = 'Process accounting is exact: no leaked, untracked or phantom worker'
FUNCTIONS = ['circus/watcher.py:Watcher.spawn_process', 'circus/watcher.py:Watcher.reap_process',
             'circus/watcher.py:Watcher.manage_processes', 'circus/watcher.py:Watcher.get_active_processes',
             'circus/arbiter.py:Arbiter.reap_processes', 'circus/commands/list.py:List.execute',
             'circus/commands/numprocesses.py:NumProcesses.execute', 'circus/commands/status.py:Status.execute',
             'circus/commands/stats.py:Stats.execute']
ASSUMPTIONS = [
    'simulated kernel / clock / zmq as in C01; exec failures are OSError raised by Popen at the n-th attempt',
    'hooks are harness callables with a scripted outcome per call (true / false / raise); they do not re-enter the daemon',
]
EXPLANATION = ('C04: two watchers; K<=2 requests from the state-changing commands, scripted before_spawn / after_spawn outcomes, an exec '
               'failure at the n-th spawn attempt, stubborn workers and one death injected at any kernel call; at quiescence (+1 check) '
               'every pid ever spawned is listed under exactly one watcher or is gone. ')

EVENTS = (scen.EV_CHECK, scen.EV_INCR, scen.EV_DECR, scen.EV_SETNP, scen.EV_RESTART, scen.EV_RELOAD, scen.EV_RELOAD_SEQ,
          scen.EV_STOP, scen.EV_START, scen.EV_KILLCMD, scen.EV_XKILL, scen.EV_EXIT, scen.EV_TIME)
# hook outcome scripts after boot: (next call, all later calls); 0 true, 1 false, 2 raise
SCRIPTS = ((0, 0), (1, 1), (2, 2), (0, 1), (1, 0), (2, 0))
BEHS = {0: lambda i, argv: Beh(obey=0.0), 2: lambda i, argv: Beh(obey=None), 1: lambda i, argv: Beh(obey=0.15)}


class Hook(object):
    """scripted hook: outcome of the n-th call is script[min(n, len-1)]: 0 true, 1 false, 2 raise"""

    def __init__(self, script):
        self.script = script
        self.calls = 0

    def __call__(self, watcher=None, arbiter=None, hook_name=None, **kw):
        i = self.calls
        self.calls += 1
        o = self.script[i] if i < len(self.script) else self.script[-1]
        if o == 2:
            raise RuntimeError('hook %s failed (scripted)' % hook_name)
        return o == 0


def accounting_ok(w, names):
    k = w.kernel
    ok = True
    listed_all = {}
    arb = w.arbiter
    for name in names:
        try:
            wa = arb.get_watcher(name)
        except KeyError:
            wa = None
        alive = k.alive_pids(name)
        zomb = k.zombie_pids(name)
        if wa is None:
            if alive or zomb:
                rt.note('watcher %s is gone but its workers are not: alive=%r zombie=%r', name, alive, zomb)
                ok = False
            continue
        ls = w.call('list', name=name).reply
        npr = w.call('numprocesses', name=name).reply
        st = w.call('status', name=name).reply
        stats = w.call('stats', name=name).reply
        listed = sorted(ls.get('pids', []))
        table = sorted(wa.processes)
        if zomb:
            rt.note('%s: zombie children after the periodic check: %r', name, zomb)
            ok = False
        if listed != alive or table != alive:
            rt.note('%s: live=%r list=%r table=%r', name, alive, listed, table)
            ok = False
        if npr.get('numprocesses') != len(alive):
            rt.note('%s: numprocesses reply %r, %d live', name, npr.get('numprocesses'), len(alive))
            ok = False
        info = stats.get('info', {}) if isinstance(stats, dict) else {}
        if sorted(int(p) for p in info) != alive:
            rt.note('%s: stats reports %r, live %r', name, sorted(info), alive)
            ok = False
        if st.get('status') not in ('active', 'stopped'):
            rt.note('%s: transient status %r at quiescence', name, st.get('status'))
            ok = False
        if st.get('status') == 'stopped' and (alive or table):
            rt.note('%s: stopped with processes %r / %r', name, alive, table)
            ok = False
        for p in listed:
            if p in listed_all:
                rt.note('pid %r reported under %s and %s', p, listed_all[p], name)
                ok = False
            listed_all[p] = name
    # every child ever started is reported or gone
    for rec in k.spawn_log:
        kp = k.procs[rec['pid']]
        if kp.state == 'alive' and rec['pid'] not in listed_all:
            rt.note('pid %r (%s) is alive but no watcher reports it', rec['pid'], rec['tag'])
            ok = False
        if kp.state == 'zombie':
            rt.note('pid %r (%s) is an unreaped zombie', rec['pid'], rec['tag'])
            ok = False
    return ok


def _blocked(w, S, e1, e2, h2):
    """The daemon blocked.  That is C05's subject inside the region of its listed finding (a non-exclusive kill request overlapping an
    operation that reaps, or a vetoed worker that was deleted from the table while its kill is pending); anywhere else a daemon that blocks
    never reaches a quiescent point at all -- the accounting is never made right."""
    used = [EVENTS[e1]] + ([EVENTS[e2]] if S.get('K', 1) >= 2 else [])
    if scen.EV_KILLCMD in used or h2 != 0:
        return rt.skip()
    rt.note('the daemon blocked during %r: zombies and dead table entries are never cleaned up', [scen.NAMES.get(e, e) for e in used])
    return rt.verdict(False)


def c04_history(e1: int, p1: int, g1: int, e2: int, p2: int, h1: int, h2: int, sf: int, d: int, v: int, tgt: int) -> bool:
    """
    pre: e1 == rt.S['e1'] and 0 <= e2 < len(EVENTS)
    pre: -1 <= p1 <= 2 and -1 <= p2 <= 2 and g1 in (0, 3)
    pre: 0 <= h1 <= rt.S.get('hmax', 0) and 0 <= h2 <= rt.S.get('hmax', 0)
    pre: -1 <= sf <= rt.S.get('sfmax', -1)
    pre: 0 <= d <= rt.S.get('dmax', 0) and 0 <= v <= 1 and 0 <= tgt <= 1
    pre: rt.S.get('K', 1) >= 2 or (e2 == 0 and p2 == 0)
    pre: rt.S.get('dmax', 0) > 0 or v == 0
    post: _
    """
    S = rt.S
    h1 = rt.pick(h1, len(SCRIPTS))
    h2 = rt.pick(h2, len(SCRIPTS))
    if S.get('hook') == 'before' and h2 != 0:
        return rt.skip()
    if S.get('hook') == 'after' and h1 != 0:
        return rt.skip()
    if h2 != 0 and S.get('beh', 0) != 0 and rt.finding_listed('c04.after_spawn_veto_leaks_stubborn_worker'):
        return rt.skip()            # listed known finding (see known_findings.jsonl); any other violation is still reported
    with World() as w:
        k = w.kernel
        k.behaviour = BEHS[S.get('beh', 0)]
        w.had_spawn_veto = False
        # hook scripts: outcome for the boot spawns is always true, then (h // 3) for the next call, (h % 3) afterwards
        hooks = {}
        n0 = S.get('n0', 2)
        if S.get('hmax', 0) > 0:
            hb = Hook([0] * n0 + list(SCRIPTS[h1]))
            ha = Hook([0] * n0 + list(SCRIPTS[h2]))
            hooks = {'before_spawn': (hb, False), 'after_spawn': (ha, False)}
            w.had_spawn_veto = (h2 != 0)
        wa = w.mk_watcher('a', numprocesses=n0, graceful_timeout=S.get('gt', 0.2), hooks=hooks or None)
        wb = w.mk_watcher('b', numprocesses=1, graceful_timeout=0.2)
        names = ['a'] if S.get('single') else ['a', 'b']
        w.boot([wa] if S.get('single') else [wa, wb])
        if S.get('single') and tgt != 0:
            return rt.skip()
        if sf >= 0:
            if S.get('sfkind') == 'preexec':
                # the child is forked but its pre-exec step (setrlimit / setgid / setuid) fails: subprocess reports that as
                # SubprocessError, which is not an OSError
                import subprocess
                k.spawn_errors[k.spawn_attempts + sf] = subprocess.SubprocessError('Exception occurred in preexec_fn.')
            else:
                k.spawn_failures.add(k.spawn_attempts + sf)
        if S.get('dmax', 0) > 0 and d > 0:
            k.injections.append({'at_call': k.calls + d, 'victim': ('nth', v), 'status': core.status_signal(9)})
        sc = Sched(w, 'a' if tgt == 0 else 'b')
        try:
            sc.gap(g1)
            sc.apply(EVENTS[e1], p1)
            if S.get('K', 1) >= 2:
                if EVENTS[e1] != scen.EV_KILLCMD:
                    sc.gap(3)
                else:
                    w.run_for(0.05)          # the kill request is still waiting on its workers
                sc.wname = 'a'
                sc.apply(EVENTS[e2], p2)
            w.quiesce()
            if w.clock.tripped:
                return _blocked(w, S, e1, e2, h2)
            # first quiescent point, before any periodic check: every LIVE child must already be tracked
            w.run_for(0.002)            # (a SIGKILLed process needs its moment to die)
            tracked = set()
            for wx in w.arbiter.watchers:
                tracked |= set(wx.processes)
            early_ok = True
            for rec in k.spawn_log:
                if k.procs[rec['pid']].state == 'alive' and rec['pid'] not in tracked:
                    rt.note('at the first quiescent point pid %r (%s) is alive but tracked by no watcher', rec['pid'], rec['tag'])
                    early_ok = False
            sc.settle(checks=1)
            k.injections = [i for i in k.injections if i.get('done')]
            sc.settle(checks=2)
            if w.clock.tripped:
                return _blocked(w, S, e1, e2, h2)
            return rt.verdict(accounting_ok(w, names) and early_ok)
        except (scen.Diverged, scen.BlockedLoop):
            return rt.skip()


def c04_step(np: int, s1: int, s2: int, m: int, e: int, p: int, d: int, v: int) -> bool:
    """
    Inductive step: from an arbitrary quiescent state of one watcher in which every live child is tracked
    (the representation invariant), one macro-step of any kind (a request or a periodic check, with a death
    injected inside it) leads -- after one more periodic check -- to a state where the invariant holds again.

    pre: 0 <= np <= 2 and 0 <= m <= 2 and 0 <= s1 <= 2 and 0 <= s2 <= 2
    pre: e == rt.S['e'] and -1 <= p <= 2
    pre: 0 <= d <= rt.S.get('dmax', 10) and 0 <= v <= 1
    post: _
    """
    S = rt.S
    with World() as w:
        k = w.kernel
        k.behaviour = BEHS[S.get('beh', 0)]
        w.had_spawn_veto = False
        wa = w.mk_watcher('a', numprocesses=max(m, 1), graceful_timeout=0.2)
        w.boot([wa])
        pids = sorted(wa.processes)
        if m == 0:
            for pid in pids:
                k.external_kill(pid)
                k.waitpid(pid, 0)
                wa.processes.pop(pid)
        for i, pid in enumerate(pids[:m]):
            st = (s1, s2)[i]
            if st >= 1:
                k.external_kill(pid)
            if st == 2:
                k.waitpid(pid, 0)
        wa.numprocesses = np
        if d > 0:
            k.injections.append({'at_call': k.calls + d, 'victim': ('nth', v), 'status': core.status_signal(9)})
        sc = Sched(w)
        try:
            sc.apply(EVENTS[e], p)
            w.quiesce()
            k.injections = [i for i in k.injections if i.get('done')]
            sc.settle(checks=2)
            if w.clock.tripped:
                return rt.skip()
            return rt.verdict(accounting_ok(w, ['a']))
        except (scen.Diverged, scen.BlockedLoop):
            return rt.skip()


def _canary_early_return_reap():
    """Arbiter.reap_processes returns before waitpid(-1) when no watcher tracks anything"""
    import circus.arbiter as ca
    orig = ca.Arbiter.reap_processes

    def reap_processes(self):
        tracked = [p for w in self.iter_watchers() if not w.is_stopped() for p in w.processes]
        if not tracked:
            return
        return orig(self)
    ca.Arbiter.reap_processes = reap_processes


def _canary_veto_without_kill():
    """a vetoed worker is dropped from the table without being killed"""
    import circus.watcher as cw
    orig = cw.Watcher.kill_process
    from tornado import gen

    @gen.coroutine
    def kill_process(self, process, stop_signal=None, graceful_timeout=None):
        import inspect
        if any(f.function == 'spawn_process' for f in inspect.stack()[:8]):
            raise gen.Return(True)
        r = yield orig(self, process, stop_signal=stop_signal, graceful_timeout=graceful_timeout)
        raise gen.Return(r)
    cw.Watcher.kill_process = kill_process


CANARIES = {
    'reap_skipped_when_nothing_tracked': {'apply': _canary_early_return_reap, 'conds': ['c04_history'],
                                          'shards': [{'e1': 2, 'K': 1, 'n0': 1, 'beh': 2, 'single': True}],
                                          'what': 'waitpid(-1) sweep skipped when no tracked process exists'},
    'veto_without_kill': {'apply': _canary_veto_without_kill, 'conds': ['c04_history'],
                          'shards': [{'e1': 1, 'K': 1, 'n0': 1, 'beh': 0, 'hmax': 5, 'hook': 'after'}],
                          'what': 'a worker vetoed by after_spawn is forgotten but not killed'},
}

KNOWN = [
    {'key': 'c04.after_spawn_veto_leaks_stubborn_worker', 'fn': 'c04_history',
     'shard': {'e1': 1, 'K': 1, 'n0': 1, 'beh': 2, 'hmax': 5, 'hook': 'after'},
     'args': dict(e1=1, p1=1, g1=3, e2=0, p2=0, h1=0, h2=1, sf=-1, d=0, v=0, tgt=0),
     'what': 'a false/failing after_spawn leaves a worker that ignores the stop signal alive and untracked: spawn_process drops it '
             'from the table right after the first signal, so kill_process\'s SIGKILL is refused by Watcher.send_signal'},
]


def plan(tier):
    q = tier == 'quick'
    sh = []
    for e in range(len(EVENTS)):
        sh.append({'e1': e, 'K': 1, 'n0': 2, 'beh': 0, 'dmax': 10 if q else 24})
        if not q:
            sh.append({'e1': e, 'K': 2, 'n0': 2, 'beh': 0, 'dmax': 6})
            sh.append({'e1': e, 'K': 1, 'n0': 2, 'beh': 2, 'dmax': 24})
    for e in (1, 3, 4, 5, 8):     # events that spawn: hook outcomes and exec failures
        for hook in (('before', 'after') if q else ('before', 'after', 'both')):
            sh.append({'e1': e, 'K': 1, 'n0': 1, 'beh': 0, 'hmax': 5, 'hook': hook, 'sfmax': 1 if q else 3})
            sh.append({'e1': e, 'K': 1, 'n0': 1, 'beh': 2, 'hmax': 5, 'hook': hook})
    for e in (1, 3, 4, 5, 8):        # events that spawn, with a failure in the child's pre-exec step (SubprocessError) at the n-th attempt
        sh.append({'e1': e, 'K': 1, 'n0': 1, 'beh': 0, 'sfmax': 1 if q else 3, 'sfkind': 'preexec'})
    for e in (2, 3, 5, 7):           # decr, set numprocesses, reload, stop with graceful_timeout 0 and workers that ignore the stop signal
        sh.append({'e1': e, 'K': 1, 'n0': 2, 'beh': 2, 'gt': 0})
    sh.append({'e1': 2, 'K': 1, 'n0': 1, 'beh': 2, 'single': True})
    sh.append({'e1': 9, 'K': 2, 'n0': 2, 'beh': 2})           # a kill request in its grace period, then any second event
    sh.append({'e1': 2, 'K': 1, 'n0': 2, 'beh': 2, 'single': True, 'dmax': 12})
    step = [{'e': e, 'dmax': 6 if q else 16, 'beh': 0} for e in range(len(EVENTS))]
    return [
        Cond('c04_history', shards=sh, budget=200 if q else 1500, twins=2,
             bounds={'e1,e2': 'S: %d-event menu' % len(EVENTS), 'p': 'R[-1,2]', 'g1': 'S{now, quiescence}', 'tgt': 'S{watcher a, watcher b}',
                     'h1,h2': 'S: before_spawn / after_spawn outcome scripts (true/false/raise for the next call x afterwards)',
                     'sf': 'R[-1,sfmax] index of the failing exec (ENOENT, or SubprocessError from the pre-exec step)', 'd': 'R[0,dmax] kernel call of an injected death', 'beh': 'S{obey, stubborn}', 'gt': 'S: graceful_timeout {0.2 s, 0}'}),
        Cond('c04_step', shards=step, budget=200 if q else 1200, twins=2,
             bounds={'np': 'S[0,2]', 'm': 'S[0,2]', 's_i': 'S{alive, zombie, gone}', 'e': 'S: shard key over the event menu', 'd': 'R[0,dmax]'}),
    ]
