"""C01 -- process count converges to the configured target and then stays put.

Real code under the solver: Watcher.manage_processes / spawn_processes / spawn_process / kill_process /
set_numprocesses / incr / decr / set_opt / _restart / _reload / reap_process(es), Arbiter.manage_watchers /
reap_processes, Controller.dispatch and the incr / decr / set / restart / reload commands, util.synchronized.
World: vtlib.world (simulated kernel, virtual clock, fake zmq).
"""
from vtlib import rt
from vtlib.driver import Cond
from vtlib.harness import scen
from vtlib.harness.scen import World, Beh, Sched
from vtlib.world import core

PROPERTY = 'C01'
TITLE = 'Process count converges to the configured target and then stays put'
FUNCTIONS = ['circus/watcher.py:Watcher.manage_processes', 'circus/watcher.py:Watcher.spawn_processes',
             'circus/watcher.py:Watcher.spawn_process', 'circus/watcher.py:Watcher.kill_process',
             'circus/watcher.py:Watcher.set_numprocesses', 'circus/watcher.py:Watcher.incr',
             'circus/watcher.py:Watcher.decr', 'circus/watcher.py:Watcher.set_opt',
             'circus/watcher.py:Watcher._restart', 'circus/watcher.py:Watcher._reload',
             'circus/arbiter.py:Arbiter.manage_watchers', 'circus/arbiter.py:Arbiter.reap_processes']
ASSUMPTIONS = [
    'simulated kernel (vtlib.world.core.Kernel): pids increase monotonically (pid reuse outside the claim); SIGKILL '
    'is immediate; zombies ignore signals; orphans are re-parented to init; spawning takes 1 ms of virtual time',
    'virtual clock and event loop: all waiting goes through tornado timers or time.sleep of the stubbed time module',
    'fake zmq sockets never fail; psutil.Popen replaced by FakePopen honouring the psutil 7 / subprocess contract',
    'worker behaviours: dies at once / after 0.15 s / never on a catchable signal; graceful_timeout 0.2 s; check_delay 1 s',
]
EXPLANATION = ('C01: bounded histories from boot (K events chosen by the solver from an 11-event menu with integer parameters in '
               '[-2,3] and 4 placements each, plus one worker death injected at any kernel call) and an inductive step from an '
               'arbitrary quiescent watcher state. ')

GAPSETS = {'all': (0, 1, 2, 3), 'two': (0, 3), 'three': (0, 1, 3)}

BEHS = {
    0: lambda i, argv: Beh(obey=0.0),
    1: lambda i, argv: Beh(obey=0.15),
    2: lambda i, argv: Beh(obey=None),
    3: lambda i, argv: Beh(obey=None) if i % 2 == 0 else Beh(obey=0.0),
}


def _converged(w, wa, tag='a'):
    """live kernel children == table == `list` reply; their number == numprocesses"""
    k = w.kernel
    alive = k.alive_pids(tag)
    zomb = k.zombie_pids(tag)
    table = sorted(wa.processes)
    r = w.call('list', name=tag)
    listed = sorted(r.reply.get('pids', [])) if r.reply else None
    np = wa.numprocesses
    ok = True
    if zomb:
        rt.note('zombie workers left: %r', zomb)
        ok = False
    if alive != table or listed != alive:
        rt.note('live=%s table=%s list=%s', alive, table, listed)
        ok = False
    if np < 0 or (wa.singleton and np > 1):
        rt.note('numprocesses out of range %r', np)
        ok = False
    if wa.is_active() and len(alive) != np:
        rt.note('active watcher: %d live workers, numprocesses=%d', len(alive), np)
        ok = False
    if wa.is_stopped() and alive:
        rt.note('stopped watcher with live workers %r', alive)
        ok = False
    if wa.status() not in ('active', 'stopped'):
        rt.note('transient status at quiescence: %r', wa.status())
        ok = False
    return ok


def c01_history(e1: int, p1: int, g1: int, e2: int, p2: int, g2: int, d: int, v: int) -> bool:
    """
    pre: e1 == rt.S['e1'] and 0 <= e2 <= 10
    pre: rt.S.get('pmin', -2) <= p1 <= rt.S.get('pmax', 3) and rt.S.get('pmin', -2) <= p2 <= rt.S.get('pmax', 3)
    pre: g1 in GAPSETS[rt.S.get('gaps', 'all')] and g2 in GAPSETS[rt.S.get('gaps', 'all')]
    pre: 0 <= d <= rt.S.get('dmax', 0) and 0 <= v <= 1
    pre: rt.S.get('K', 2) >= 2 or (e2 == 0 and p2 == 0 and g2 == 0)
    pre: rt.S.get('dmax', 0) > 0 or v == 0
    post: _
    """
    S = rt.S
    with World() as w:
        w.kernel.behaviour = BEHS[S.get('beh', 0)]
        var = S.get('var', 'default')
        wa = w.mk_watcher('a', **scen.variant(var, numprocesses=S.get('n0', 2), singleton=S.get('singleton', False),
                                             warmup_delay=S.get('warm', 0), graceful_timeout=0.2))
        if S.get('front_raises'):
            # a higher-priority neighbour whose every respawn fails with an error the watcher does not handle (refused in the
            # pre-exec step): its management raises on every periodic check; watcher a must be kept at its target regardless
            import subprocess
            wf = w.mk_watcher('f', numprocesses=1, graceful_timeout=0.2, priority=10)
            w.boot([wf, wa])
            w.kernel.spawn_error_tags['f'] = RuntimeError('the spawn of this watcher fails in a way nobody handles (injected)')
            w.kernel.external_kill(w.kernel.alive_pids('f')[0])
        else:
            w.boot([wa])
        if S.get('pidwrap'):
            w.kernel.next_pid = 300        # the kernel's pid counter has wrapped: every later process gets a SMALLER pid than the running ones
        if var == 'max_age_var':
            w.randint_value = 10           # clamped to max_age_variance by the stub: the largest stagger
        if S.get('dmax', 0) > 0 and d > 0:
            w.kernel.injections.append({'at_call': w.kernel.calls + d, 'victim': ('newest', 0) if S.get('victim') == 'newest' else ('nth', v),
                                        'status': core.status_signal(9)})
        sc = Sched(w)
        try:
            sc.gap(g1)
            if S.get('killfail') is not None:
                # a transient fault: the n-th signal delivery from now on fails once with EPERM (the count must converge all the same)
                w.kernel.kill_errors.add(w.kernel.kill_count + S['killfail'])
            r1 = sc.apply(e1, p1)
            if S.get('K', 2) >= 2:
                sc.gap(g2)
                sc.apply(e2, p2)
            w.kernel.injections = [i for i in w.kernel.injections if i.get('done')]   # faults belong to the history, not to the settling phase
            sc.settle(checks=3)
            if w.clock.tripped:
                # no event of this menu overlaps a non-exclusive kill (the region of the listed C05 finding): a daemon that blocks here
                # never converges
                rt.note('the daemon blocked (%r): the count cannot converge', sc.trace)
                return rt.verdict(False)
            ok = _converged(w, wa)
            # after a completed restart / non-hup reload every live worker was started after the request
            for (e, req) in sc.reqs:
                if var == 'send_hup' and e in (scen.EV_RELOAD, scen.EV_RELOAD_SEQ):
                    continue            # a send_hup watcher reloads by SIGHUP: the workers stay (excluded by the statement)
                if var in ('max_age', 'max_age_var'):
                    continue            # expiry replaces workers on its own
                if e in (scen.EV_RESTART, scen.EV_RELOAD, scen.EV_RELOAD_SEQ, scen.EV_RELOAD_TERM) \
                        and req.status == 'ok' and wa.is_active():
                    later = [x for (ee, x) in sc.reqs if x.t_sent > req.t_sent]
                    if later:
                        continue
                    for pid in w.kernel.alive_pids('a'):
                        kp = w.kernel.procs[pid]
                        if kp.t_spawn < req.t_sent:
                            rt.note('worker %d predates the completed %s', pid, scen.NAMES[e])
                            ok = False
            # fixpoint: two more checks neither spawn nor signal
            before = scen.snapshot_logs(w)
            sc.settle(checks=2)
            after = scen.snapshot_logs(w)
            if var == 'max_age':
                after = before          # max_age expiry is "something changes": no fixpoint is claimed
                ok = _converged(w, wa) and ok
            if var == 'max_age_var':
                # nobody may be terminated for old age before max_age (+ stagger): a supervisor signal to a worker younger than
                # max_age that no request asked for is a broken fixpoint
                asked = any(e in (scen.EV_INCR, scen.EV_DECR, scen.EV_SETNP, scen.EV_RESTART, scen.EV_RELOAD, scen.EV_RELOAD_SEQ, scen.EV_RELOAD_TERM)
                            for e, _r in sc.reqs)        # (incr with a negative number removes workers too)
                if not asked:
                    for s_ in w.kernel.signal_log:
                        kp = w.kernel.procs.get(s_['pid'])
                        if kp is not None and kp.tag == 'a' and s_['sig'] != 0 and s_['target'] == 'alive' and s_['t'] - kp.t_spawn < 3 - 1e-6:
                            rt.note('worker %d was signalled (%d) at age %.2f s although max_age is 3 s', s_['pid'], s_['sig'], s_['t'] - kp.t_spawn)
                            ok = False
                            break
                after = before
            if before != after:
                rt.note('converged state is not a fixpoint: spawn/signal log %s -> %s', before, after)
                ok = False
            rt.note('trace %r np=%r alive=%r replies=%r', sc.trace, wa.numprocesses, w.kernel.alive_pids('a'),
                    [(scen.NAMES[e], x.reply) for e, x in sc.reqs])
            rt.note('loop exceptions %r', w.loop_exceptions)
            return rt.verdict(ok)
        except (scen.Diverged, scen.BlockedLoop):
            return rt.skip()


def c01_step(np: int, s1: int, s2: int, s3: int, m: int, d: int, v: int) -> bool:
    """
    Inductive step: an arbitrary quiescent ACTIVE watcher (numprocesses np, m table entries, each worker
    alive / unreaped zombie / already gone), one real periodic check with a death injected at any kernel
    call inside it, then a second and a third check: after the second, live = table = numprocesses and no
    zombie is left; the third adds nothing to the spawn and signal logs.

    pre: 0 <= np <= 3 and 0 <= m <= 3
    pre: 0 <= s1 <= 2 and 0 <= s2 <= 2 and 0 <= s3 <= 2
    pre: 0 <= d <= rt.S.get('dmax', 25) and 0 <= v <= 2
    post: _
    """
    S = rt.S
    if 'np' in S and np != S['np']:
        return rt.skip()
    if 'm' in S and m != S['m']:
        return rt.skip()
    with World() as w:
        w.kernel.behaviour = BEHS[S.get('beh', 0)]
        wa = w.mk_watcher('a', numprocesses=max(m, 1), graceful_timeout=0.2)
        w.boot([wa])
        # construct the quiescent pre-state: m workers in arbitrary kernel states, target np
        pids = sorted(wa.processes)
        if m == 0:
            # no table entry: drop the booted worker silently
            for pid in pids:
                w.kernel.external_kill(pid)
                w.kernel.waitpid(pid, 0)
                wa.processes.pop(pid)
        states = [s1, s2, s3]
        for i, pid in enumerate(pids[:m]):
            if states[i] >= 1:
                w.kernel.external_kill(pid)
            if states[i] == 2:
                w.kernel.waitpid(pid, 0)        # reaped by somebody else: gone
        wa.numprocesses = np
        if d > 0:
            w.kernel.injections.append({'at_call': w.kernel.calls + d, 'victim': ('nth', v),
                                        'status': core.status_signal(9)})
        try:
            w.check_now()
            w.kernel.injections = [i for i in w.kernel.injections if i.get('done')]   # the fault belongs to the first step
            w.run_for(0.5)
            w.check_now()
            w.run_for(0.5)
            w.quiesce()
            if w.clock.tripped:
                return rt.skip()
            ok = _converged(w, wa)
            before = scen.snapshot_logs(w)
            w.check_now()
            w.run_for(0.5)
            if scen.snapshot_logs(w) != before:
                rt.note('third check still changes the process set')
                ok = False
            return rt.verdict(ok)
        except (scen.Diverged, scen.BlockedLoop):
            return rt.skip()


# ---------------------------------------------------------------------------------------------
def _canary_no_surplus_kill():
    """manage_processes never removes surplus workers (the decr-to-fewer path is a no-op)"""
    import circus.watcher as cw
    from tornado import gen
    from circus.process import DEAD_OR_ZOMBIE, UNEXISTING

    @gen.coroutine
    def manage_processes(self):
        if self.is_stopped():
            return
        for process in list(self.processes.values()):
            if process.status in (DEAD_OR_ZOMBIE, UNEXISTING):
                self.processes.pop(process.pid)
        if self.max_age:
            yield self.remove_expired_processes()
        if len(self.processes) < self.numprocesses and not self.is_stopping():
            if self.respawn:
                yield self.spawn_processes()
            elif not len(self.processes) and not self.on_demand:
                yield self._stop()
    cw.Watcher.manage_processes = manage_processes


def _canary_zero_slice():
    """surplus selection rewritten with a negative slice: nothing is removed when the target is 0"""
    import circus.watcher as cw
    from tornado import gen
    from circus.process import DEAD_OR_ZOMBIE, UNEXISTING

    @gen.coroutine
    def manage_processes(self):
        if self.is_stopped():
            return
        for process in list(self.processes.values()):
            if process.status in (DEAD_OR_ZOMBIE, UNEXISTING):
                self.processes.pop(process.pid)
        if len(self.processes) < self.numprocesses and not self.is_stopping():
            if self.respawn:
                yield self.spawn_processes()
        if len(self.processes) > self.numprocesses:
            processes_to_kill = []
            for process in sorted(self.processes.values(),
                                  key=lambda process: process.started)[:-self.numprocesses]:
                if process.status in (DEAD_OR_ZOMBIE, UNEXISTING):
                    self.processes.pop(process.pid)
                else:
                    processes_to_kill.append(process)
            removes = yield [self.kill_process(process) for process in processes_to_kill]
            for i, process in enumerate(processes_to_kill):
                if removes[i]:
                    self.processes.pop(process.pid)
    cw.Watcher.manage_processes = manage_processes


CANARIES = {
    'no_surplus_kill': {'apply': _canary_no_surplus_kill, 'conds': ['c01_history'],
                        'shards': [{'e1': scen.EV_DECR, 'K': 1, 'n0': 2}],
                        'what': 'manage_processes without the surplus-removal branch'},
    'zero_slice': {'apply': _canary_zero_slice, 'conds': ['c01_history'],
                   'shards': [{'e1': scen.EV_DECR, 'K': 1, 'n0': 2}],
                   'what': 'surplus slice [:-numprocesses] (no-op at target 0)'},
}


def plan(tier):
    q = tier == 'quick'
    evs = list(range(0, 11))
    sh = []
    if q:
        for e in evs:
            sh.append({'e1': e, 'K': 2, 'n0': 2, 'beh': 0, 'gaps': 'two', 'pmin': -1, 'pmax': 1})
        for e in evs:
            sh.append({'e1': e, 'K': 1, 'n0': 2, 'beh': 2, 'dmax': 30, 'gaps': 'three'})
        for e in (scen.EV_INCR, scen.EV_SETNP, scen.EV_RESTART):
            sh.append({'e1': e, 'K': 1, 'n0': 1, 'beh': 0, 'singleton': True})
        # configuration variants: graceful_timeout 0 with stubborn workers, send_hup, max_age
        for e in (scen.EV_DECR, scen.EV_SETNP, scen.EV_RELOAD, scen.EV_RESTART, scen.EV_RELOAD_SEQ):
            sh.append({'e1': e, 'K': 1, 'n0': 2, 'beh': 2, 'var': 'gt0'})
        for e in (scen.EV_RELOAD, scen.EV_RELOAD_SEQ, scen.EV_XKILL, scen.EV_DECR):
            sh.append({'e1': e, 'K': 1, 'n0': 2, 'beh': 0, 'var': 'send_hup'})
        for e in (scen.EV_RELOAD, scen.EV_RELOAD_SEQ, scen.EV_RESTART, scen.EV_INCR):
            sh.append({'e1': e, 'K': 1, 'n0': 2, 'beh': 0, 'pidwrap': True, 'gaps': 'two'})
        for e in (scen.EV_RELOAD, scen.EV_RELOAD_SEQ, scen.EV_RESTART):
            # the NEWEST live process dies at kernel call d: a worker of the new generation, in the middle of its own roll-out
            sh.append({'e1': e, 'K': 1, 'n0': 2, 'beh': 0, 'dmax': 14, 'victim': 'newest', 'gaps': 'two'})
        for e in (scen.EV_TIME, scen.EV_CHECK, scen.EV_XKILL, scen.EV_INCR):
            sh.append({'e1': e, 'K': 2 if e == scen.EV_TIME else 1, 'n0': 2, 'beh': 0, 'var': 'max_age_var', 'gaps': 'two', 'pmin': 0, 'pmax': 1})
        for e in (scen.EV_XKILL, scen.EV_EXIT, scen.EV_CHECK):
            sh.append({'e1': e, 'K': 2, 'n0': 2, 'beh': 0, 'front_raises': True, 'gaps': 'two', 'pmin': -1, 'pmax': 1})
        for e in (scen.EV_DECR, scen.EV_SETNP, scen.EV_RELOAD, scen.EV_RELOAD_SEQ):
            for kf in (0, 1):
                sh.append({'e1': e, 'K': 1, 'n0': 2, 'beh': 0, 'killfail': kf, 'gaps': 'two'})
        for e in (scen.EV_TIME, scen.EV_DECR, scen.EV_XKILL, scen.EV_INCR):
            sh.append({'e1': e, 'K': 1, 'n0': 2, 'beh': 0, 'var': 'max_age', 'dmax': 10})
    else:
        for e in evs:
            for beh in (0, 1, 2, 3):
                sh.append({'e1': e, 'K': 2, 'n0': 2, 'beh': beh})
                sh.append({'e1': e, 'K': 1, 'n0': 3, 'beh': beh, 'dmax': 40, 'warm': 0.3})
            sh.append({'e1': e, 'K': 2, 'n0': 1, 'beh': 0, 'singleton': True})
            sh.append({'e1': e, 'K': 2, 'n0': 2, 'beh': 0, 'dmax': 12})
            sh.append({'e1': e, 'K': 2, 'n0': 2, 'beh': 0, 'front_raises': True})
            sh.append({'e1': e, 'K': 2, 'n0': 2, 'beh': 0, 'pidwrap': True})
            sh.append({'e1': e, 'K': 1, 'n0': 3, 'beh': 0, 'dmax': 30, 'victim': 'newest'})
            sh.append({'e1': e, 'K': 2, 'n0': 2, 'beh': 0, 'var': 'max_age_var', 'gaps': 'two'})
            if e in (scen.EV_DECR, scen.EV_SETNP, scen.EV_RELOAD, scen.EV_RELOAD_SEQ, scen.EV_INCR):
                # (a delivery failure inside a restart / non-graceful reload cuts a STOP short: that is C02's scenario -- the watcher
                # is left 'stopping' until the stop is requested again -- and the watcher is no longer the active one C01 speaks about)
                for kf in (0, 1, 2):
                    sh.append({'e1': e, 'K': 1, 'n0': 2, 'beh': 0, 'killfail': kf})
                # stubborn workers: only the FIRST delivery fails.  (A failing SIGKILL leaves process.stopping set on the pinned tree
                # too -- observed, recorded in DESIGN.md, outside the property, which does not quantify over delivery failures.)
                sh.append({'e1': e, 'K': 1, 'n0': 2, 'beh': 2, 'killfail': 0})
            for var in ('gt0', 'send_hup', 'max_age', 'stop_children'):
                sh.append({'e1': e, 'K': 2, 'n0': 2, 'beh': 2 if var == 'gt0' else 0, 'var': var, 'gaps': 'two'})
    step_sh = [{'np': n, 'm': m, 'dmax': 12 if q else 30, 'beh': 0}
               for n in range(0, 3 if q else 4) for m in range(0, 3 if q else 4)]
    if not q:
        step_sh += [{'np': n, 'm': m, 'dmax': 30, 'beh': 2} for n in range(0, 4) for m in range(0, 4)]
    return [
        Cond('c01_history', shards=sh, budget=150 if q else 1500, twins=2,
             bounds={'e1': 'S: shard key over the 11-event menu', 'e2': 'S[0,10]', 'p1,p2': 'R[-2,3] (quick K=2: [-1,1]) (nb / numprocesses / victim / exit status)',
                     'g1,g2': 'S{now, 1 turn, 2 turns, quiescence} (quick K=2: {now, quiescence})', 'd': 'R[0,dmax] kernel call of an injected SIGKILL death',
                     'v': 'S{0,1} victim (or the newest live process)', 'var': 'S: configuration variant {default, graceful_timeout 0, send_hup, max_age, max_age 3 s with variance 2 s, stop_children}', 'pidwrap': 'S: the pid counter wraps after boot (later processes get smaller pids)', 'front_raises': 'S: a higher-priority neighbour watcher whose management raises on every check', 'killfail': 'S: the n-th signal delivery after the first event begins fails once with EPERM', 'n0': 'S{1,2,3}', 'beh': 'S{obey, obey after 0.15 s, ignore, alternating}'},
             smoke=[({'e1': scen.EV_DECR, 'K': 2, 'n0': 2}, dict(e1=4, p1=1, g1=0, e2=3, p2=2, g2=3, d=0, v=0))]),
        Cond('c01_step', shards=step_sh, budget=150 if q else 1200, twins=2,
             bounds={'np': 'S[0,%d]' % (2 if q else 3), 'm': 'S[0,%d] table entries' % (2 if q else 3),
                     's_i': 'S{alive, zombie, gone}', 'd': 'R[0,dmax]', 'v': 'S[0,2]'}),
    ]
