"""C05 -- the daemon never blocks: every request completes in bounded time.

Real code under the solver: Watcher.reap_process (waitpid / time.sleep loop), kill_process, spawn_processes, _stop,
_start, Controller.dispatch / _dispatch_callback_future, util.synchronized, all commands of the menu.
World: vtlib.world; the virtual clock's time.sleep feeds a blocking watchdog.
"""
from vtlib import rt
from vtlib.driver import Cond
from vtlib.harness import scen
from vtlib.harness.scen import World, Beh, Sched
from vtlib.world import core

PROPERTY = 'C05'
TITLE = 'The daemon never blocks: every request completes in bounded time'
FUNCTIONS = ['circus/watcher.py:Watcher.reap_process', 'circus/watcher.py:Watcher.kill_process',
             'circus/watcher.py:Watcher.spawn_processes', 'circus/watcher.py:Watcher._stop', 'circus/watcher.py:Watcher._start',
             'circus/controller.py:Controller.dispatch', 'circus/util.py:synchronized']
ASSUMPTIONS = [
    'simulated kernel / clock as in C01 (SIGKILL takes 0.5 ms to take effect); "blocked" = virtual time consumed by time.sleep inside one '
    'loop callback > 50 ms, or a callback that never returns (watchdog at 5 s)',
    'time spent in user hooks and stream writers is outside the claim',
]
EXPLANATION = ('C05: K<=2 events (exclusive operations, overlapping non-exclusive kill / signal requests, deaths) with stubborn, slow and '
               'obedient workers; a read-only probe request is injected after every event and must be answered in the same loop turn; '
               'every accepted waiting request must be answered within the applicable graceful_timeout + warm-up delays + 0.5 s. ')

EVENTS = (scen.EV_CHECK, scen.EV_EXIT, scen.EV_XKILL, scen.EV_INCR, scen.EV_DECR, scen.EV_SETNP, scen.EV_RESTART, scen.EV_RELOAD,
          scen.EV_RELOAD_SEQ, scen.EV_RELOAD_TERM, scen.EV_TIME, scen.EV_STOP, scen.EV_START, scen.EV_KILLCMD, scen.EV_SIGNALCMD,
          scen.EV_SETOPT, scen.EV_INCR_BIG, scen.EV_KILL0)
READONLY = ('status', 'list', 'numprocesses', 'options', 'numwatchers', 'globaloptions', 'listsockets', 'dstats')
STOPPING = (scen.EV_RESTART, scen.EV_RELOAD_SEQ, scen.EV_RELOAD_TERM, scen.EV_STOP, scen.EV_RELOAD, scen.EV_DECR, scen.EV_SETNP,
            scen.EV_SETOPT, scen.EV_CHECK, scen.EV_INCR)
BEHS = {0: lambda i, argv: Beh(obey=0.0), 1: lambda i, argv: Beh(obey=0.15), 2: lambda i, argv: Beh(obey=None)}
GT = 0.3


def _gt():
    return rt.S.get('gt', GT)


def _probe(w):
    """every read-only request is answered at once, without the loop turning"""
    ok = True
    for name in READONLY:
        props = {'name': 'a'} if name in ('status', 'list', 'numprocesses', 'options') else {}
        turns = w.turns
        t = w.clock.now
        r = w.send(name, **props)
        # (`status name=..` documents that its reply's status field is the watcher's status)
        if not r.replies or (r.status != 'ok' and name != 'status'):
            rt.note('read-only request %s not answered ok at once: %r (operation in flight: %r)', name, r.reply,
                    w.arbiter._exclusive_running_command)
            ok = False
        if w.turns != turns or w.clock.now != t:
            ok = False
    return ok


def c05_block(e1: int, p1: int, e2: int, p2: int, g2: int, d: int) -> bool:
    """
    pre: e1 == rt.S['e1'] and 0 <= e2 < len(EVENTS)
    pre: -1 <= p1 <= 2 and -1 <= p2 <= 2 and g2 in (0, 1, 3)
    pre: 0 <= d <= rt.S.get('dmax', 0)
    post: _
    """
    S = rt.S
    with World() as w:
        k = w.kernel
        k.behaviour = BEHS[S.get('beh', 2)]
        w.clock.watchdog = 5.0
        k.spawn_cost = S.get('spawn_cost', 0.001)
        warm = S.get('warm', 0)
        stream_kw = {}
        if S.get('streams'):
            # captured output (fake pipes, see vtlib.world.pipes); every worker has a helper child that inherited the pipes,
            # ignores the stop signal and outlives it: no EOF arrives when the worker dies
            from vtlib.world import pipes as vpipes
            k.pipes = vpipes.PipeTable(k)
            base_beh = k.behaviour
            k.behaviour = lambda i, argv: Beh(obey=base_beh(i, argv).obey, nchildren=1, child_obey=None)
            stream_kw = dict(stdout_stream={'stream': (lambda data: None)}, stderr_stream={'stream': (lambda data: None)})
        wa = w.mk_watcher('a', numprocesses=S.get('n0', 2), graceful_timeout=_gt(), warmup_delay=warm,
                          respawn=S.get('respawn', True), **stream_kw)
        wb = w.mk_watcher('b', numprocesses=1, graceful_timeout=_gt())
        extra = {}
        if S.get('on_demand'):
            from circus.sockets import CircusSocket
            _sock = CircusSocket(name='web', host='127.0.0.1', port=0)       # a managed socket nobody connects to
            wc = w.mk_watcher('c', numprocesses=1, graceful_timeout=_gt(), on_demand=True, use_sockets=True)
            extra = {'sockets': [_sock]}
            w.boot([wa, wb, wc], **extra)
        else:
            w.boot([wa, wb])
        if S.get('dmax', 0) > 0 and d > 0:
            k.injections.append({'at_call': k.calls + d, 'victim': ('nth', 0), 'status': core.status_signal(9)})
        if S.get('streams') and S.get('wbytes'):
            # a worker has written exactly `wbytes` bytes (a multiple of the 1024-byte read size) and is quiet since
            k.pipes.write(k.alive_pids('a')[0], 'stdout', b'x' * S['wbytes'])
        if S.get('eagain'):
            # from now on every fork fails with EAGAIN (process table / RLIMIT_NPROC exhausted): a persistent condition
            import errno as _errno
            k.spawn_error_from = (k.spawn_attempts, OSError(_errno.EAGAIN, 'Resource temporarily unavailable'))
            k.external_kill(k.alive_pids('a')[0])        # ... and a worker needs replacing
        sc = Sched(w)
        ok = True
        in_region = False
        try:
            ev1 = EVENTS[e1]
            if S.get('spawn_cost', 0) > 0.001 and EVENTS[e2] in (scen.EV_RELOAD, scen.EV_SETOPT):
                return rt.skip()      # a parallel reload spawns numprocesses workers back to back by design: not charged here
            if ev1 == scen.EV_START and not S.get('respawn', True):
                # `start` on an ACTIVE watcher that is short of workers (respawn off, one died)
                k.external_kill(k.alive_pids('a')[0])
                w.check_now()
                if wa.is_active() and len(wa.processes) < wa.numprocesses:
                    in_region = True
            try:
                sc.apply(ev1, p1)
            except scen.BlockedLoop:
                pass
            ok = _probe(w) and ok
            sc.gap(g2)
            ev2 = EVENTS[e2]
            kill_pending = any(e == scen.EV_KILLCMD and not r.replies for e, r in sc.reqs)
            if kill_pending and ev2 in STOPPING:
                in_region = True        # a non-exclusive kill holds process.stopping while an operation reaps
            if ev2 == scen.EV_KILLCMD and ev1 in STOPPING and w.arbiter._exclusive_running_command is not None:
                in_region = True
            try:
                sc.apply(ev2, p2)
            except scen.BlockedLoop:
                pass
            ok = _probe(w) and ok
            # let everything finish; all waits are bounded by the grace periods and warm-up delays
            # the applicable grace periods and warm-up delays: one of each per worker the operations may touch
            try:
                w.run_until(lambda: all(r.replies for e, r in sc.reqs if r.msg['properties'].get('waiting')) and
                            w.arbiter._exclusive_running_command is None, max_time=40.0)
                sc.settle(checks=1)
            except scen.BlockedLoop:
                pass
            nwork = len(k.spawn_log) + 2      # (a concrete count: every worker that ever existed in this run)
            bound = nwork * (_gt() + warm + S.get('spawn_cost', 0.001)) + 0.5
            if w.clock.tripped or w.clock.blocked_max > 0.05:
                if in_region and rt.finding_listed('c05.reap_process_busy_wait'):
                    return rt.skip()
                rt.note('event loop blocked: time.sleep consumed %.3f s inside one callback (trace %r)', w.clock.blocked_max, sc.trace)
                ok = False
            for e, r in sc.reqs:
                if not r.msg['properties'].get('waiting'):
                    continue
                if not r.replies:
                    if r.msg['command'] in ('incr', 'decr', 'set', 'restart', 'reload', 'stop', 'start') and \
                            rt.finding_listed('c06.failed_waiting_request_never_answered') and w.loop_exceptions:
                        continue
                    if in_region and rt.finding_listed('c05.reap_process_busy_wait'):
                        continue
                    rt.note('waiting request %s never answered', r.msg['command'])
                    ok = False
                elif e == scen.EV_KILL0 and r.t_reply - r.t_sent > 0.2 and not in_region:
                    rt.note('kill with graceful_timeout=0 answered after %.3f s', r.t_reply - r.t_sent)
                    ok = False
                elif r.t_reply - r.t_sent > bound + 1e-6:
                    rt.note('request %s answered after %.3f s (bound %.3f)', r.msg['command'], r.t_reply - r.t_sent, bound)
                    ok = False
            return rt.verdict(ok)
        except scen.Diverged:
            rt.note('scenario diverged (loop never quiesced): %r', sc.trace)
            return rt.verdict(False)


def _canary_no_kill_at_zero():
    """no SIGKILL escalation when graceful_timeout is 0"""
    import circus.watcher as cw
    orig_ssp = cw.Watcher.send_signal_process

    def send_signal_process(self, process, signum, recursive=False):
        if signum == 9 and recursive and self.graceful_timeout == 0:
            return
        return orig_ssp(self, process, signum, recursive)
    cw.Watcher.send_signal_process = send_signal_process


def _canary_sync_sleep():
    """spawn_processes sleeps synchronously for the warm-up delay"""
    import circus.watcher as cw
    real = cw.tornado_sleep

    def tornado_sleep(d):
        if 0.2 <= d <= 0.5:
            cw.time.sleep(d)
            return real(0)
        return real(d)
    cw.tornado_sleep = tornado_sleep


CANARIES = {
    'warmup_sleeps_synchronously': {'apply': _canary_sync_sleep, 'conds': ['c05_block'],
                                    'shards': [{'e1': 3, 'beh': 0, 'warm': 0.3}],
                                    'what': 'the warm-up delay is slept with time.sleep inside the coroutine'},
}

KNOWN = [
    {'key': 'c05.reap_process_busy_wait', 'fn': 'c05_block', 'shard': {'e1': 13, 'beh': 2},
     'args': dict(e1=13, p1=0, e2=11, p2=0, g2=0, d=0),
     'what': 'Watcher.reap_process busy-waits (waitpid(WNOHANG) + time.sleep) on a LIVE worker and blocks the event loop: a stop / restart / '
             'reload / decr / set / periodic check that reaps while a non-exclusive kill request holds process.stopping, or `start` on an '
             'active watcher that is short of workers (respawn off)'},
]


def plan(tier):
    q = tier == 'quick'
    sh = []
    for e in range(len(EVENTS)):
        sh.append({'e1': e, 'beh': 2})
        if not q:
            sh.append({'e1': e, 'beh': 1, 'dmax': 10})
            sh.append({'e1': e, 'beh': 0, 'warm': 0.3})
    for e in (4, 6, 8, 9, 11):      # graceful_timeout 0 with workers that ignore the stop signal
        sh.append({'e1': e, 'beh': 2, 'gt': 0})
    sh.append({'e1': 16, 'beh': 0, 'spawn_cost': 0.005})      # many spawns: fork/exec (5 ms each) must not pile up in one loop turn
    sh.append({'e1': 0, 'beh': 0, 'on_demand': True})          # a stopped on_demand watcher waiting for its first connection
    for e in (3, 4, 6, 7, 11, 13):       # incr, decr, restart, reload, stop, kill: with captured output and a helper child holding the pipes
        sh.append({'e1': e, 'beh': 0, 'streams': True})
    for e, nb in ((0, 1024), (10, 2048), (3, 1024)):       # check / time / incr while exactly k x 1024 bytes of output are pending
        sh.append({'e1': e, 'beh': 0, 'streams': True, 'wbytes': nb})
    for e in (0, 3, 6, 12):              # check, incr, restart, start while fork fails persistently with EAGAIN
        sh.append({'e1': e, 'beh': 0, 'eagain': True})
    sh.append({'e1': 12, 'beh': 0, 'respawn': False})
    sh.append({'e1': 3, 'beh': 0, 'warm': 0.3})
    return [
        Cond('c05_block', shards=sh, budget=240 if q else 1500, twins=2,
             bounds={'e1': 'S: shard key over the %d-event menu' % len(EVENTS), 'e2': 'S: same menu', 'p1,p2': 'R[-1,2]',
                     'g2': 'S{now, 1 turn, quiescence}', 'probes': 'all of %r after every event' % (READONLY,), 'd': 'R[0,dmax]',
                     'beh': 'S{obey, obey after 0.15 s, ignore}', 'graceful_timeout': 'S{0.3 s, 0}', 'warmup_delay': 'S{0, 0.3}', 'streams': 'S: output captured, a helper child keeps the pipes open', 'eagain': 'S: every fork fails with EAGAIN from now on'}),
    ]
