"""C13 -- each worker runs exactly the configured command line, environment and directory.

Real code under the solver: Watcher.__init__ (env assembly), spawn_process, _nextwid, Process.__init__ /
format_args / spawn, util.replace_gnu_args.  World: vtlib.world (the kernel records argv / cwd / env / shell of
every spawn).
"""
import os
import shlex

from vtlib import rt
from vtlib.driver import Cond
from vtlib.harness import scen
from vtlib.harness.scen import World, Beh, Sched
from vtlib.world import core

PROPERTY = 'C13'
TITLE = 'Each worker runs exactly the configured command line, environment and directory'
FUNCTIONS = ['circus/process.py:Process.format_args', 'circus/process.py:Process.spawn', 'circus/util.py:replace_gnu_args',
             'circus/watcher.py:Watcher.__init__', 'circus/watcher.py:Watcher.spawn_process', 'circus/watcher.py:Watcher._nextwid']
ASSUMPTIONS = [
    'simulated kernel as in C01: argv / cwd / env / shell are what psutil.Popen is called with',
    'POSIX quoting (shlex); the deprecated $WID form and Windows are outside the bound',
    'environment values do not themselves contain circus variable references',
]
EXPLANATION = ('C13: differential check against an independent 30-line scanner of the documented substitution language followed by shlex.split: '
               'cmd and args assembled from a token menu (both reference syntaxes in any letter case, env references whose value has blanks or '
               'quotes, unknown and prefix-less references, literal dollars and parentheses, quotes, backslashes), args as none / string / '
               'list, shell on/off, copy_env on/off; worker ids over C01-style histories and an inductive step on _nextwid. ')

TOKENS = ('$(circus.wid)', '((circus.env.V))', '$(circus.env.two)', '$(circus.env.q)', '$(circus.nope)', '$(wid)', '"a b"', "'",
          '((circus.wid))', '$(CIRCUS.WID)', '$(circus.env.v)', '((circus.env.missing))', '$', '(', '$(', '))', '\\ x',
          '"$(circus.env.two)"', '$(circus.wid)$(circus.wid)', '--opt=$(circus.env.v)', 'plain')
ENVS = ({'v': 'val', 'two': 'two words', 'q': "it's"}, {'V': 'UP', 'two': '-v --level 3', 'q': '"q"'})
OPTION_NAMES = ('wid', 'env.v', 'env.two', 'env.q')


def spec_subst(text, wid, env):
    """independent scanner: $(circus.NAME) and ((circus.NAME)), case-insensitive; unknown names stay verbatim"""
    known = {'wid': str(wid)}
    for k, v in env.items():
        known['env.' + k.lower()] = v
    out = []
    i = 0
    n = len(text)
    word = set('abcdefghijklmnopqrstuvwxyzABCDEFGHIJKLMNOPQRSTUVWXYZ0123456789_.-')
    while i < n:
        for opener, closer in (('$(', ')'), ('((', '))')):
            if text.startswith(opener, i):
                j = i + len(opener)
                k = j
                while k < n and text[k] in word:
                    k += 1
                if k > j and text.startswith(closer, k):
                    name = text[j:k]
                    if name.lower().startswith('circus.') and len(name) > 7:
                        key = name[7:].lower()
                        if key in known:
                            out.append(known[key])
                            i = k + len(closer)
                            break
                        out.append(text[i:k + len(closer)])
                        i = k + len(closer)
                        break
        else:
            out.append(text[i])
            i += 1
    return ''.join(out)


VARIANTS = ((False, False, 0, 0), (True, False, 0, 0), (False, True, 0, 0), (False, False, 1, 0), (False, False, 0, 1), (True, True, 1, 1))


def c13_argv(t1: int, t2: int, t3: int, am: int, at: int, var: int) -> bool:
    """
    var selects (shell, copy_env, env value set, which worker): each switched on alone, and all together.

    pre: 0 <= t1 < len(TOKENS) and 0 <= t2 < rt.S.get('nt2', len(TOKENS)) and 0 <= t3 < len(TOKENS) and 0 <= at < len(TOKENS)
    pre: t1 == rt.S['t1']
    pre: 0 <= am <= 2 and 0 <= var < len(VARIANTS)
    pre: rt.S.get('ntok', 2) >= 3 or t3 == len(TOKENS) - 1
    pre: rt.S.get('free_at', False) or at == t2
    post: _
    """
    S = rt.S
    t1 = rt.pick(t1, len(TOKENS))
    t2 = rt.pick(t2, len(TOKENS))
    t3 = rt.pick(t3, len(TOKENS))
    at = rt.pick(at, len(TOKENS))
    am = rt.pick(am, 3)
    sh, ce, ev, wsel = VARIANTS[rt.pick(var, len(VARIANTS))]
    toks = [TOKENS[t1], TOKENS[t2]] + ([TOKENS[t3]] if S.get('ntok', 2) >= 3 else [])
    cmd = 'prog ' + ' '.join(toks)
    env = dict(ENVS[ev])
    if am == 0:
        args = None
    elif am == 1:
        args = '-x ' + TOKENS[at] + ' end'
    else:
        args = ['-x', TOKENS[at], 'e n d']
    nproc = 1 if wsel == 0 else 2          # the last worker's wid is nproc
    os.environ['C13_DAEMON_ONLY'] = 'daemon'
    with World() as w:
        k = w.kernel
        k.behaviour = lambda i, argv: Beh(obey=0.0)
        try:
            wa = w.mk_watcher('a', cmd=cmd, args=args, numprocesses=nproc, env=env, shell=bool(sh), copy_env=bool(ce),
                              working_dir='/srv/app', max_retry=1)
        except Exception as e:     # noqa
            rt.note('watcher construction failed: %r', e)
            return rt.verdict(False)
        w.boot([wa], check_delay=-1)
        w.run_for(0.2)
        ok = True
        for idx in range(nproc):
            wid = idx + 1
            try:
                exp = shlex.split(spec_subst(cmd, wid, env))
                if args is None:
                    pass
                elif isinstance(args, str):
                    exp = exp + shlex.split(spec_subst(args, wid, env))
                else:
                    exp = exp + [spec_subst(a, wid, env) for a in args]
            except ValueError:
                exp = None          # unbalanced quoting: the worker cannot be started at all
            recs = [s for s in k.spawn_log if s['tag'] == 'a']
            if exp is None:
                if recs:
                    rt.note('cmd %r args %r cannot be split, yet %r was executed', cmd, args, recs[0]['argv'])
                    ok = False
                break
            if len(recs) <= idx:
                rt.note('worker %d of cmd %r args %r was not started', wid, cmd, args)
                ok = False
                break
            rec = recs[idx]
            want = [' '.join(shlex.quote(a) for a in exp)] if sh else exp
            if list(rec['argv']) != want:
                rt.note('cmd=%r args=%r wid=%d shell=%r: executed %r, expected %r', cmd, args, wid, bool(sh), rec['argv'], want)
                ok = False
            if rec['cwd'] != '/srv/app':
                rt.note('cwd %r', rec['cwd'])
                ok = False
            want_env = dict(os.environ, **env) if ce else env
            if dict(rec['env']) != dict(want_env):
                rt.note('environment differs: extra %r missing %r', sorted(set(rec['env']) - set(want_env))[:4],
                        sorted(set(want_env) - set(rec['env']))[:4])
                ok = False
            if bool(rec['shell']) != bool(sh):
                ok = False
        return rt.verdict(ok)


def c13_setenv(ei: int, pl: int, how: int) -> bool:
    """
    The command line follows the CURRENT environment: after `set env` (which reloads the watcher) and after a later
    respawn / incr, new workers get the new value wherever the reference sits (cmd or args).

    pre: 0 <= ei <= 2 and 0 <= pl <= 1 and 0 <= how <= 2
    post: _
    """
    ei = rt.pick(ei, 3)
    pl = rt.pick(pl, 2)
    how = rt.pick(how, 3)
    values = ('blue', 'two words', '')
    with World() as w:
        k = w.kernel
        k.behaviour = lambda i, argv: Beh(obey=0.0)
        if pl == 0:
            wa = w.mk_watcher('a', cmd='prog --color $(circus.env.color)', numprocesses=1, env={'color': 'red'}, graceful_timeout=0.2)
        else:
            wa = w.mk_watcher('a', cmd='prog', args='--color $(circus.env.color)', numprocesses=1, env={'color': 'red'},
                              graceful_timeout=0.2)
        w.boot([wa], check_delay=-1)
        r = w.call('set', name='a', options={'env': {'color': values[ei]}}, waiting=True, max_time=10.0)
        w.quiesce()
        if how == 1:
            w.call('incr', name='a', nb=1, waiting=True, max_time=10.0)
        elif how == 2:
            k.external_kill(k.alive_pids('a')[0])
            w.check_now()
            w.run_for(0.2)
        w.quiesce()
        ok = True
        if r.status != 'ok':
            return rt.skip()
        want = ['prog', '--color'] + shlex.split(values[ei])
        for pid in k.alive_pids('a'):
            kp = k.procs[pid]
            if list(kp.argv) != want or dict(kp.env) != {'color': values[ei]}:
                rt.note('after set env color=%r: worker %d runs %r with env %r', values[ei], pid, kp.argv, kp.env)
                ok = False
        if not k.alive_pids('a'):
            ok = False
        return rt.verdict(ok)


def c13_wid(e1: int, p1: int, g1: int, e2: int, p2: int, d: int, v: int) -> bool:
    """
    Worker ids over histories: positive, unique among the live workers, the first worker has id 1.

    pre: e1 == rt.S['e1'] and 0 <= e2 <= 14
    pre: rt.S.get('pmin', -1) <= p1 <= 2 and rt.S.get('pmin', -1) <= p2 <= 2 and g1 in rt.S.get('gaps', (0, 1, 3))
    pre: 0 <= d <= rt.S.get('dmax', 0) and 0 <= v <= 1
    post: _
    """
    S = rt.S
    with World() as w:
        k = w.kernel
        k.behaviour = {0: lambda i, argv: Beh(obey=0.0), 2: lambda i, argv: Beh(obey=None),
                       3: lambda i, argv: Beh(obey=None) if i % 2 == 0 else Beh(obey=0.0)}[S.get('beh', 0)]
        wa = w.mk_watcher('a', cmd='prog $(circus.wid)', numprocesses=S.get('n0', 2), graceful_timeout=0.3)
        w.boot([wa])
        if S.get('dmax', 0) > 0 and d > 0:
            k.injections.append({'at_call': k.calls + d, 'victim': ('nth', v), 'status': core.status_signal(9)})
        sc = Sched(w)
        ok = True

        def check(label):
            live = k.workers('a', ('alive',))
            wids = [int(p.argv[1]) for p in live]
            if any(x < 1 for x in wids) or len(set(wids)) != len(wids):
                rt.note('%s: live workers carry ids %r (pids %r)', label, wids, [p.pid for p in live])
                return False
            return True
        try:
            first = k.spawn_log[0]
            if int(first['argv'][1]) != 1:
                rt.note('first worker has id %r', first['argv'][1])
                ok = False
            sc.gap(g1)
            sc.apply(e1, p1)
            ok = check('after event 1') and ok
            w.run_for(0.12)
            ok = check('during') and ok
            sc.apply(e2, p2)
            ok = check('after event 2') and ok
            k.injections = [i for i in k.injections if i.get('done')]
            w.run_for(0.12)
            ok = check('during 2') and ok
            sc.settle(checks=2)
            if w.clock.tripped:
                return rt.skip()
            ok = check('settled') and ok
            return rt.verdict(ok)
        except (scen.Diverged, scen.BlockedLoop):
            return rt.skip()


def c13_nextwid(u1: int, u2: int, u3: int, u4: int, m: int, np: int) -> bool:
    """
    Inductive step on the id allocator: ANY set of ids in use and any numprocesses -- the next id is the smallest
    positive integer not in use, and allocation fails only when 1..2*numprocesses are all taken.

    pre: 0 <= m <= 4 and 0 <= np <= 4 and m == rt.S.get('m', m) and np == rt.S.get('np', np)
    pre: 1 <= u1 <= 8 and 1 <= u2 <= 8 and 1 <= u3 <= 8 and 1 <= u4 <= 8
    post: _
    """
    from circus.watcher import Watcher

    class P(object):
        stopping = False
        started = 0

        def __init__(self, wid):
            self.wid = wid
    used = [u1, u2, u3, u4][:m]
    if len(set(used)) != len(used):
        return rt.skip()
    with World() as w:
        wa = w.mk_watcher('a', numprocesses=1)
        wa.numprocesses = np
        wa.processes = dict((1000 + i, P(u)) for i, u in enumerate(used))
        try:
            got = wa._nextwid
        except RuntimeError:
            got = None
        smallest = 1
        while smallest in used:
            smallest += 1
        if got is None:
            full = all(x in used for x in range(1, 2 * np + 1))
            return rt.verdict(full)
        return rt.verdict(got == smallest and got >= 1)


def _canary_split_first():
    """string args are split before substitution"""
    import circus.process as cp
    orig = cp.Process.format_args

    def format_args(self, sockets_fds=None):
        if isinstance(self.args, str):
            saved = self.args
            self.args = shlex.split(saved)
            try:
                return orig(self, sockets_fds)
            finally:
                self.args = saved
        return orig(self, sockets_fds)
    cp.Process.format_args = format_args


def _canary_wid_reuse():
    """_nextwid ignores workers that are being stopped"""
    import circus.watcher as cw

    def _nextwid(self):
        used_wids = set([p.wid for p in self.processes.values() if not getattr(p, 'stopping', False)])
        all_wids = set(range(1, self.numprocesses * 2 + 1))
        available_wids = sorted(all_wids - used_wids)
        try:
            return available_wids[0]
        except IndexError:
            raise RuntimeError("Process count > numproceses*2")
    cw.Watcher._nextwid = property(_nextwid)


def _canary_case():
    """substitution becomes case-sensitive"""
    import re
    import circus.util as cu
    cu._CIRCUS_VAR = re.compile(cu._PATTERN1 % 'circus' + '|' + cu._PATTERN2 % 'circus')


CANARIES = {
    'args_split_before_substitution': {'apply': _canary_split_first, 'conds': ['c13_argv'], 'shards': [{'t1': 20, 'ntok': 2, 'nt2': 8}],
                                       'what': 'a reference whose value has blanks stays one argv entry'},
    'wid_of_a_stopping_worker_reused': {'apply': _canary_wid_reuse, 'conds': ['c13_wid'],
                                        'shards': [{'e1': scen.EV_KILLCMD, 'beh': 3, 'n0': 2}],
                                        'what': '_nextwid skips processes flagged as stopping'},
    'case_sensitive_references': {'apply': _canary_case, 'conds': ['c13_argv'], 'shards': [{'t1': 9, 'ntok': 2, 'nt2': 8}],
                                  'what': '$(CIRCUS.WID) no longer substituted'},
}


def plan(tier):
    q = tier == 'quick'
    argv_sh = [{'t1': r, 'ntok': 2, 'nt2': 8} for r in range(len(TOKENS))]
    if not q:
        argv_sh = [{'t1': r, 'ntok': 2, 'free_at': True} for r in range(len(TOKENS))] + \
                  [{'t1': r, 'ntok': 3, 'nt2': 8} for r in range(len(TOKENS))]
    wid_sh = [dict({'e1': e, 'n0': 2, 'beh': 0}, **({'pmin': 0, 'gaps': [0, 3]} if q else {'dmax': 12})) for e in range(0, 15)]
    wid_sh += [{'e1': scen.EV_KILLCMD, 'n0': 2, 'beh': 3}, {'e1': scen.EV_KILLCMD, 'n0': 3, 'beh': 2}]
    return [
        Cond('c13_argv', shards=argv_sh, budget=300 if q else 2400, twins=2,
             bounds={'tokens': 'S: 2 (thorough 3) tokens of cmd from a %d-token menu' % len(TOKENS), 'args': 'S{none, string, list} with one menu token',
                     'variant': 'S: shell / copy_env / second env value set (blanks, quotes, upper-case key) / second worker -- each alone and all together'}),
        Cond('c13_wid', shards=wid_sh, budget=240 if q else 1500, twins=2,
             bounds={'e1,e2': 'S: 15-event menu (C01 menu + stop/start/kill/signal)', 'p': 'R[-1,2]', 'd': 'R[0,dmax]', 'beh': 'S{obey, ignore, alternating}'}),
        Cond('c13_setenv', budget=120, twins=1,
             bounds={'value': 'S{blue, two words, empty}', 'place': 'S{cmd, args}', 'then': 'S{nothing, incr, death + respawn}'}),
        Cond('c13_nextwid', shards=[{'m': m, 'np': n} for m in range(5) for n in range(5)], budget=240 if q else 900, twins=1,
             bounds={'used ids': 'R: up to 4 distinct ids in [1,8]', 'numprocesses': 'R[0,4]'}),
    ]
