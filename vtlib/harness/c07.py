"""C07 -- managed sockets reach every worker generation and are never rebound (daemon side).

Real code under the solver: CircusSocket.__init__ / bind_and_listen / close, CircusSockets, Arbiter.initialize,
Watcher._get_sockets_fds / spawn_process, Process._get_sockets_fds / format_args / spawn.
The sockets are REAL (unix paths in a scratch directory, inet on port 0); bind / listen / close calls are counted by
wrappers.  World: vtlib.world for everything else.
"""
import os
import shutil
import socket
import tempfile

from vtlib import rt
from vtlib.driver import Cond
from vtlib.harness import scen
from vtlib.harness.scen import World, Beh, Sched
from vtlib.world import core

PROPERTY = 'C07'
TITLE = 'Managed sockets reach every worker generation and are never rebound'
FUNCTIONS = ['circus/sockets.py:CircusSocket.__init__', 'circus/sockets.py:CircusSocket.bind_and_listen', 'circus/sockets.py:CircusSocket.close',
             'circus/sockets.py:CircusSockets.bind_and_listen_all', 'circus/arbiter.py:Arbiter.initialize',
             'circus/process.py:Process._get_sockets_fds', 'circus/process.py:Process.format_args', 'circus/process.py:Process.spawn',
             'circus/watcher.py:Watcher._get_sockets_fds', 'circus/watcher.py:Watcher.spawn_process']
ASSUMPTIONS = [
    'daemon side only: that Popen(close_fds=False) plus the inheritable flag (or pass_fds) make the descriptor available in a real child is '
    'trusted (POSIX); what a real child finds in /proc/<pid>/fd is outside the claim',
    'real AF_UNIX / AF_INET sockets of this sandbox; simulated kernel for processes',
]
EXPLANATION = ('C07: socket sets {unix, inet, both, so_reuseport}, watcher variants (reference in cmd / in args / upper-case / both syntaxes / no '
               'use_sockets / stdin_socket without use_sockets) and K<=2 events (deaths, restart, reload modes, incr, decr) over several worker '
               'generations; oracle per spawn on what Popen was given and on the socket objects themselves. ')

VARIANTS = ('cmd_lower', 'cmd_upper', 'args_ref', 'both_syntaxes', 'two_sockets', 'no_use_sockets', 'stdin_only', 'reuseport')
EVENTS = (scen.EV_XKILL, scen.EV_EXIT, scen.EV_RESTART, scen.EV_RELOAD, scen.EV_RELOAD_SEQ, scen.EV_RELOAD_TERM, scen.EV_INCR, scen.EV_DECR,
          scen.EV_CHECK, scen.EV_STOP, scen.EV_START, 'SETCMD')


class Counter(object):
    def __init__(self):
        self.calls = []


def _instrument(w, counter):
    import circus.sockets as cs

    def wrap(name):
        real = getattr(socket.socket, name)

        def f(self, *a, **kw):
            counter.calls.append((name, id(self), getattr(self, 'name', None)))
            return real(self, *a, **kw)
        return f
    for nm in ('bind', 'listen'):
        w._patch(cs.CircusSocket, nm, wrap(nm))
    real_close = cs.CircusSocket.close

    def close(self):
        counter.calls.append(('close', id(self), getattr(self, 'name', None)))
        return real_close(self)
    w._patch(cs.CircusSocket, 'close', close)


def c07_sockets(vi: int, e1: int, p1: int, e2: int, p2: int, e3: int, p3: int) -> bool:
    """
    pre: vi == rt.S['vi'] and 0 <= e1 < len(EVENTS) and 0 <= e2 < len(EVENTS)
    pre: 0 <= p1 <= 1 and 0 <= p2 <= 1 and 0 <= p3 <= 1 and 0 <= e3 < len(EVENTS)
    pre: rt.S.get('K', 2) >= 2 or (e2 == 0 and p2 == 0)
    pre: rt.S.get('K', 2) >= 3 or (e3 == 0 and p3 == 0)
    pre: rt.S.get('e1', -1) in (-1, e1)
    post: _
    """
    S = rt.S
    vi = rt.pick(vi, len(VARIANTS))
    e1 = rt.pick(e1, len(EVENTS))
    e2 = rt.pick(e2, len(EVENTS))
    e3 = rt.pick(e3, len(EVENTS))
    variant = VARIANTS[vi]
    tmp = tempfile.mkdtemp(prefix='c07_')
    from circus.sockets import CircusSocket
    counter = Counter()
    socks = []
    try:
        with World() as w:
            _instrument(w, counter)
            k = w.kernel
            k.behaviour = lambda i, argv: Beh(obey=0.0)
            web = CircusSocket(name='web', path=os.path.join(tmp, 'web.sock'))
            api = CircusSocket(name='api', host='127.0.0.1', port=0)
            socks = [web, api]
            if variant == 'reuseport':
                rp = CircusSocket.load_from_config({'name': 'rp', 'host': '127.0.0.1', 'port': '0', 'so_reuseport': 'True'})
                socks.append(rp)
            kw = dict(use_sockets=True)
            args = None
            if variant == 'cmd_lower':
                cmd = 'prog --fd $(circus.sockets.web)'
                refs = [('web', 2)]
            elif variant == 'cmd_upper':
                cmd = 'prog --fd $(CIRCUS.SOCKETS.WEB)'
                refs = [('web', 2)]
            elif variant == 'args_ref':
                cmd = 'prog'
                args = '--fd $(circus.sockets.web)'
                refs = [('web', 2)]
            elif variant == 'both_syntaxes':
                cmd = 'prog $(circus.sockets.web) ((circus.sockets.web))'
                refs = [('web', 1), ('web', 2)]
            elif variant == 'two_sockets':
                cmd = 'prog $(circus.sockets.web) $(circus.sockets.api)'
                refs = [('web', 1), ('api', 2)]
            elif variant == 'no_use_sockets':
                cmd = 'prog plain'
                refs = []
                kw = dict(use_sockets=False)
            elif variant == 'stdin_only':
                cmd = 'prog plain'
                refs = []
                kw = dict(use_sockets=False, stdin_socket='web')
            else:
                cmd = 'prog $(circus.sockets.rp)'
                refs = [('rp', 1)]
            wa = w.mk_watcher('a', cmd=cmd, args=args, numprocesses=2, graceful_timeout=0.2, **kw)
            wb = w.mk_watcher('b', cmd='other', numprocesses=1, graceful_timeout=0.2)
            w.boot([wa, wb], check_delay=1.0, sockets=socks)
            arb = w.arbiter
            fds0 = dict((n, s.fileno()) for n, s in arb.sockets.items())
            sc = Sched(w)
            switched = {'t': None}

            def apply(ev, p):
                if ev != 'SETCMD':
                    return sc.apply(ev, p)
                if variant not in ('cmd_lower', 'cmd_upper', 'two_sockets', 'both_syntaxes') or switched['t'] is not None:
                    return sc.apply(scen.EV_CHECK, 0)
                # the command line is changed at run time to refer to ANOTHER managed socket (set cmd reloads the watcher)
                r_ = w.call('set', name='a', options={'cmd': 'prog --fd $(circus.sockets.api)'}, waiting=True, max_time=20.0)
                if r_.status == 'ok':
                    switched['t'] = r_.t_sent
            apply(EVENTS[e1], p1)
            sc.settle(checks=1)
            if S.get('K', 2) >= 2:
                apply(EVENTS[e2], p2)
                sc.settle(checks=1)
            if S.get('K', 2) >= 3:
                apply(EVENTS[e3], p3)
                sc.settle(checks=1)
            if w.clock.tripped:
                return rt.skip()
            ok = True
            # the daemon's sockets: same objects, same descriptors, open, inheritable, bound and listening exactly once
            for n, s in arb.sockets.items():
                if s.so_reuseport:
                    continue
                if s.fileno() != fds0[n] or s.fileno() < 0:
                    rt.note('socket %s changed descriptor %r -> %r', n, fds0[n], s.fileno())
                    ok = False
                    continue
                if not s.get_inheritable():
                    rt.note('socket %s is not inheritable', n)
                    ok = False
                nb = len([c for c in counter.calls if c[0] == 'bind' and c[1] == id(s)])
                nl = len([c for c in counter.calls if c[0] == 'listen' and c[1] == id(s)])
                ncl = len([c for c in counter.calls if c[0] == 'close' and c[1] == id(s)])
                if nb != 1 or nl != 1 or ncl != 0:
                    rt.note('socket %s: bind x%d listen x%d close x%d', n, nb, nl, ncl)
                    ok = False
                try:
                    if s.getsockopt(socket.SOL_SOCKET, socket.SO_ACCEPTCONN) != 1:
                        rt.note('socket %s is no longer listening', n)
                        ok = False
                except OSError as e:
                    rt.note('socket %s unusable: %r', n, e)
                    ok = False
            # every spawn of every generation
            for rec in k.spawn_log:
                kp = k.procs[rec['pid']]
                if rec['tag'] == 'a' and kw.get('use_sockets'):
                    argv = list(rec['argv'])
                    refs_now = [('api', 2)] if switched['t'] is not None and rec['t'] >= switched['t'] else refs
                    for (n, pos) in refs_now:
                        s = arb.sockets[n]
                        if s.so_reuseport:
                            # bound per worker by design: the fd passed must be a valid number, different from the template's
                            if not argv[pos].isdigit():
                                rt.note('reuseport reference not substituted: %r', argv)
                                ok = False
                            continue
                        if pos >= len(argv) or argv[pos] != str(fds0[n]):
                            rt.note('worker %d argv %r does not carry fd %d of socket %s at position %d', rec['pid'], argv, fds0[n], n, pos)
                            ok = False
                        reachable = (rec['close_fds'] is False) or (fds0[n] in tuple(kp.passed_fds))
                        if not reachable:
                            rt.note('worker %d: socket %s (fd %d) is closed in the child (close_fds=%r pass_fds=%r)', rec['pid'], n,
                                    fds0[n], rec['close_fds'], tuple(kp.passed_fds))
                            ok = False
                else:
                    if rec['close_fds'] is not True or tuple(kp.passed_fds):
                        rt.note('worker %d of %s (no use_sockets) inherits daemon descriptors: close_fds=%r pass_fds=%r', rec['pid'],
                                rec['tag'], rec['close_fds'], tuple(kp.passed_fds))
                        ok = False
            # reuseport sockets created for a spawn are released afterwards
            if variant == 'reuseport':
                extra = [c for c in counter.calls if c[0] == 'bind' and c[2] == 'rp']
                nspawn = len([r for r in k.spawn_log if r['tag'] == 'a'])
                if len(extra) != nspawn:
                    rt.note('reuseport: %d binds for %d spawns', len(extra), nspawn)
                    ok = False
            return rt.verdict(ok)
    except (scen.Diverged, scen.BlockedLoop):
        return rt.skip()
    finally:
        for s in socks:
            try:
                socket.socket.close(s)
            except Exception:  # noqa
                pass
        shutil.rmtree(tmp, ignore_errors=True)


RELOAD_EDITS = ('none', 'np_up', 'cmd_other', 'add_watcher')


def c07_reloadconfig(e1: int, e2: int) -> bool:
    """
    The managed sockets of a daemon started from a configuration FILE survive reloadconfig requests that leave the socket
    sections alone (unchanged file, a numprocesses edit, an edit of another watcher, a new watcher): same objects, same
    descriptors, bound and listening once, never closed; and the workers of every generation are handed the same descriptor.

    pre: 0 <= e1 < len(RELOAD_EDITS) and 0 <= e2 < len(RELOAD_EDITS)
    post: _
    """
    e1 = rt.pick(e1, len(RELOAD_EDITS))
    e2 = rt.pick(e2, len(RELOAD_EDITS))
    tmp = tempfile.mkdtemp(prefix='c07r_')
    path = os.path.join(tmp, 'circus.ini')
    counter = Counter()

    def text(np, other_cmd, extra):
        lines = ['[circus]', 'check_delay = -1', 'endpoint = tcp://127.0.0.1:5555', 'pubsub_endpoint = tcp://127.0.0.1:5556', '',
                 '[watcher:web]', 'cmd = prog --fd $(circus.sockets.web)', 'use_sockets = True', 'numprocesses = %d' % np, 'graceful_timeout = 0.2', '',
                 '[watcher:other]', 'cmd = %s' % other_cmd, 'numprocesses = 1', 'graceful_timeout = 0.2', '',
                 '[socket:web]', 'path = %s' % os.path.join(tmp, 'web.sock'), 'backlog = 5', '',
                 '[socket:api]', 'host = 127.0.0.1', 'port = 0', 'umask = 18', '']
        if extra:
            lines += ['[watcher:late]', 'cmd = late', 'numprocesses = 1', 'graceful_timeout = 0.2', '']
        return '\n'.join(lines)
    try:
        with World() as w:
            _instrument(w, counter)
            k = w.kernel
            k.behaviour = lambda i, argv: Beh(obey=0.0)
            import circus.arbiter as ca
            real_get_config = ca.get_config

            def get_config_untraced(p_):
                with rt.untraced():
                    return real_get_config(p_)
            w._patch(ca, 'get_config', get_config_untraced)
            state = {'np': 1, 'cmd': 'other', 'extra': False}
            with open(path, 'w') as f:
                f.write(text(1, 'other', False))
            w.boot_from_config(path)
            arb = w.arbiter
            socks0 = dict((n, (id(s), s.fileno())) for n, s in arb.sockets.items())
            ok = True
            for e in (RELOAD_EDITS[e1], RELOAD_EDITS[e2]):
                if e == 'np_up':
                    state['np'] += 1
                elif e == 'cmd_other':
                    state['cmd'] = 'other --v2' if state['cmd'] == 'other' else 'other'
                elif e == 'add_watcher':
                    state['extra'] = True
                with open(path, 'w') as f:
                    f.write(text(state['np'], state['cmd'], state['extra']))
                r = w.call('reloadconfig', waiting=True, max_time=30.0)
                w.quiesce()
                if not r.replies or r.status != 'ok':
                    rt.note('reloadconfig (%s) with untouched socket sections: %r', e, r.reply)
                    ok = False
                    break
                for n, s in arb.sockets.items():
                    if n not in socks0:
                        continue
                    if (id(s), s.fileno()) != socks0[n] or s.fileno() < 0:
                        rt.note('after reloadconfig (%s) socket %s is another object / descriptor: %r -> %r', e, n, socks0[n], (id(s), s.fileno()))
                        ok = False
                for n in socks0:
                    if n not in arb.sockets:
                        rt.note('after reloadconfig (%s) socket %s is gone', e, n)
                        ok = False
                nb = dict((n, len([c for c in counter.calls if c[0] == 'bind' and c[2] == n])) for n in socks0)
                ncl = dict((n, len([c for c in counter.calls if c[0] == 'close' and c[2] == n])) for n in socks0)
                if any(v != 1 for v in nb.values()) or any(ncl.values()):
                    rt.note('after reloadconfig (%s): binds %r closes %r', e, nb, ncl)
                    ok = False
                if not ok:
                    break
            fd_web = socks0['web'][1]
            for rec in k.spawn_log:
                if rec['tag'] == 'web' and (list(rec['argv'])[-1] != str(fd_web) or rec['close_fds'] is not False):
                    rt.note('worker %d of web: argv %r close_fds %r (socket fd %d)', rec['pid'], rec['argv'], rec['close_fds'], fd_web)
                    ok = False
            for n, s in list(arb.sockets.items()):
                try:
                    socket.socket.close(s)
                except Exception:  # noqa
                    pass
            return rt.verdict(ok)
    except (scen.Diverged, scen.BlockedLoop):
        return rt.skip()
    finally:
        shutil.rmtree(tmp, ignore_errors=True)


def _canary_pass_fds():
    """close_fds=True + pass_fds for the sockets named (case-sensitively) in cmd"""
    import circus.process as cp
    real_popen_factory = cp.Popen

    def Popen(args, **kw):
        return real_popen_factory(args, **kw)
    orig_spawn = cp.Process.spawn

    def spawn(self):
        if self.use_fds and self.watcher is not None and self.watcher.sockets is not None:
            fds = tuple(s.fileno() for n, s in self.watcher.sockets.items() if 'circus.sockets.%s' % n in self.watcher.cmd)
            real = cp.Popen

            def P(args, **kw):
                kw['close_fds'] = True
                kw['pass_fds'] = fds
                return real(args, **kw)
            cp.Popen = P
            try:
                return orig_spawn(self)
            finally:
                cp.Popen = real
        return orig_spawn(self)
    cp.Process.spawn = spawn


def _canary_stdin_inherits():
    import circus.watcher as cw
    orig = cw.Watcher.spawn_process

    def spawn_process(self, recovery_wid=None):
        saved = self.use_sockets
        self.use_sockets = self.use_sockets or self.stdin_socket is not None
        try:
            return orig(self, recovery_wid)
        finally:
            self.use_sockets = saved
    cw.Watcher.spawn_process = spawn_process


def _canary_rebind():
    """sockets are re-bound on every restart of a watcher"""
    import circus.watcher as cw
    orig = cw.Watcher._start
    from tornado import gen

    @gen.coroutine
    def _start(self):
        if self.is_stopped() and self.sockets and self.use_sockets and getattr(self, '_started_once', False):
            for s in self.sockets.values():
                try:
                    s.listen(5)
                except OSError:
                    pass
        self._started_once = True
        yield orig(self)
    cw.Watcher._start = _start


CANARIES = {
    'pass_fds_filtered_by_cmd_text': {'apply': _canary_pass_fds, 'conds': ['c07_sockets'], 'shards': [{'vi': 1, 'K': 1}, {'vi': 2, 'K': 1}],
                                      'what': 'only sockets named in lower case in cmd are passed to the child'},
    'stdin_socket_implies_inherit_all': {'apply': _canary_stdin_inherits, 'conds': ['c07_sockets'], 'shards': [{'vi': 6, 'K': 1}],
                                         'what': 'a stdin_socket watcher without use_sockets gets close_fds=False'},
    'listen_again_on_restart': {'apply': _canary_rebind, 'conds': ['c07_sockets'], 'shards': [{'vi': 0, 'K': 1}],
                                'what': 'listen() is called again when a watcher is restarted'},
}


def plan(tier):
    q = tier == 'quick'
    return [
        Cond('c07_reloadconfig', budget=120, twins=1,
             bounds={'e1,e2': 'S: two reloadconfig requests after edits from %r (socket sections untouched)' % (RELOAD_EDITS,)}),
        Cond('c07_sockets', shards=[{'vi': i, 'K': 1 if q else 2} for i in range(len(VARIANTS))] + ([{'vi': 0, 'K': 2}, {'vi': 4, 'K': 2}] if q else
                                                                                                  [{'vi': 0, 'K': 3, 'e1': e} for e in range(len(EVENTS))]),
             budget=240 if q else 1500, twins=2,
             bounds={'variant': 'S%r' % (VARIANTS,), 'e1,e2': 'S: %d events (deaths, restart, 3 reload modes, incr, decr, check, stop, start, set cmd -> another socket)' % len(EVENTS),
                     'p': 'S{0,1}', 'K': 'S{1,2} (thorough: 2, and 3 for the first variant)'}),
    ]
