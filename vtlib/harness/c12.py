"""C12 -- reloadconfig converges to the file and disturbs only what changed.

Real code under the solver: Arbiter.load_from_config / reload_from_config, config.get_config / read_config,
util.DictDiffer, Watcher.load_from_config / set_numprocesses / _stop, Arbiter.start_watcher, the reloadconfig
command.  World: vtlib.world; the configuration is a real ini file in a scratch directory (concrete text per path).
"""
import os
import shutil
import tempfile

from vtlib import rt
from vtlib.driver import Cond
from vtlib.harness import scen
from vtlib.harness.scen import World, Beh

PROPERTY = 'C12'
TITLE = 'reloadconfig converges to the file and disturbs only what changed'
FUNCTIONS = ['circus/arbiter.py:Arbiter.reload_from_config', 'circus/arbiter.py:Arbiter.load_from_config', 'circus/config.py:get_config',
             'circus/util.py:DictDiffer.changed', 'circus/watcher.py:Watcher.load_from_config', 'circus/watcher.py:Watcher.set_numprocesses',
             'circus/commands/reloadconfig.py:ReloadConfig.execute']
ASSUMPTIONS = [
    'simulated kernel / clock / zmq as in C01; the ini file is real (scratch directory), its text is concrete on every path',
    '"same as a fresh start on that file" is judged against config.get_config + Watcher.load_from_config of the current file '
    '(the parser itself is C16\'s subject)',
    'the [circus] and socket sections are held fixed',
    'config.get_config is executed outside the symbolic tracer (its input is concrete); everything it feeds -- reload_from_config, DictDiffer, Watcher -- is traced',
]
EXPLANATION = ('C12: a base file with two watchers and K<=3 edits from {add watcher, remove watcher, numprocesses +1 / -1, change cmd, change an '
               'env variable, change graceful_timeout, revert the previous edit, no edit}, each followed by reloadconfig (waiting). ')

EDITS = ('none', 'add_c', 'rm_b', 'np_up', 'np_down', 'cmd', 'env', 'opt', 'revert', 'rm_c', 'np_b_up', 'cmd_b', 'cmd_both',
         'rm_a_and_b', 'add_c_d', 'np_a_cmd_b', 'np_b_cmd_a', 'bad_b', 'np_b_down', 'add_E', 'rm_E')


def render(model):
    out = ['[circus]', 'check_delay = -1', 'endpoint = tcp://127.0.0.1:5555', 'pubsub_endpoint = tcp://127.0.0.1:5556', '']
    for name in sorted(model):
        m = model[name]
        out.append('[watcher:%s]' % name)
        for k in sorted(m):
            if k != 'env':
                out.append('%s = %s' % (k, m[k]))
        out.append('')
        if m.get('env'):
            out.append('[env:%s]' % name)
            for k in sorted(m['env']):
                out.append('%s = %s' % (k, m['env'][k]))
            out.append('')
    return '\n'.join(out)


def base_model():
    # (b's env value is one that parse_env_dict rewrites: a $VAR reference to the daemon's environment)
    # (a names its stream class explicitly: get_stream() pops that key from the dict it is given)
    return {'a': {'cmd': 'proga', 'numprocesses': 2, 'graceful_timeout': '0.2', 'stderr_stream.class': 'StdoutStream'},
            'b': {'cmd': 'progb', 'numprocesses': 1, 'graceful_timeout': '0.2', 'env': {'DATA_DIR': '$C12BASE/data'}}}


def apply_edit(model, e, history):
    import copy
    prev = copy.deepcopy(model)
    m = copy.deepcopy(model)
    if e == 'add_E':
        m['Echo'] = {'cmd': 'proge', 'numprocesses': 1, 'graceful_timeout': '0.2'}      # a name with an upper-case letter, added at run time
    elif e == 'rm_E':
        m.pop('Echo', None)
    elif e == 'add_c':
        m['c'] = {'cmd': 'progc', 'numprocesses': 1, 'graceful_timeout': '0.2'}
    elif e == 'rm_b':
        m.pop('b', None)
    elif e == 'rm_c':
        m.pop('c', None)
    elif e == 'np_up' and 'a' in m:
        m['a']['numprocesses'] += 1
    elif e == 'np_down' and 'a' in m:
        m['a']['numprocesses'] = max(0, m['a']['numprocesses'] - 1)
    elif e == 'np_b_up' and 'b' in m:
        m['b']['numprocesses'] += 1
    elif e == 'np_b_down' and 'b' in m:
        m['b']['numprocesses'] = max(0, m['b']['numprocesses'] - 1)      # 1 -> 0: a watcher scaled to nothing, then back
    elif e == 'cmd' and 'a' in m:
        m['a']['cmd'] = 'proga2' if m['a']['cmd'] == 'proga' else 'proga'
    elif e == 'cmd_b' and 'b' in m:
        m['b']['cmd'] = 'progb2' if m['b']['cmd'] == 'progb' else 'progb'
    elif e == 'cmd_both':
        for nm in ('a', 'b'):
            if nm in m:
                m[nm]['cmd'] = m[nm]['cmd'] + 'x' if not m[nm]['cmd'].endswith('x') else m[nm]['cmd'][:-1]
    elif e == 'rm_a_and_b':
        m.pop('a', None)
        m.pop('b', None)
    elif e == 'add_c_d':
        m['c'] = {'cmd': 'progc', 'numprocesses': 1, 'graceful_timeout': '0.2'}
        m['d'] = {'cmd': 'progd', 'numprocesses': 1, 'graceful_timeout': '0.2'}
    elif e in ('np_a_cmd_b', 'np_b_cmd_a'):
        x, y = ('a', 'b') if e == 'np_a_cmd_b' else ('b', 'a')
        if x in m:
            m[x]['numprocesses'] += 1
        if y in m:
            m[y]['cmd'] = m[y]['cmd'] + 'y' if not m[y]['cmd'].endswith('y') else m[y]['cmd'][:-1]
    elif e == 'bad_b' and 'b' in m:
        m['b'] = dict(m['b'], singleton='True', numprocesses=2, cmd='progb_bad')     # refused by Watcher.load_from_config
    elif e == 'env' and 'a' in m:
        env = dict(m['a'].get('env') or {})
        env['MODE'] = 'x' if env.get('MODE') != 'x' else 'y'
        m['a']['env'] = env
    elif e == 'opt' and 'a' in m:
        m['a']['graceful_timeout'] = '0.3' if m['a']['graceful_timeout'] == '0.2' else '0.2'
    elif e == 'revert' and history:
        m = copy.deepcopy(history[-1])
    history.append(prev)
    return m


def expected_options(path):
    """what a fresh start on the file would configure: name -> options (from the real parser and the real Watcher)"""
    from circus.config import get_config
    from circus.watcher import Watcher
    cfg = get_config(path)
    out = {}
    for wc in cfg['watchers']:
        x = Watcher.load_from_config(dict(wc))
        out[x.name.lower()] = dict((k, repr(v)) for k, v in x.options())
    return out


def c12_reload(e1: int, e2: int, e3: int) -> bool:
    """
    pre: e1 == rt.S['e1'] and 0 <= e2 < len(EDITS) and 0 <= e3 < len(EDITS)
    pre: rt.S.get('K', 3) >= 3 or e3 == 0
    pre: rt.S.get('K', 3) >= 2 or e2 == 0
    post: _
    """
    S = rt.S
    K = S.get('K', 3)
    edits = [EDITS[rt.pick(e, len(EDITS))] for e in (e1, e2, e3)][:K]
    os.environ['C12BASE'] = '/srv/c12'
    tmp = tempfile.mkdtemp(prefix='c12_')
    path = os.path.join(tmp, 'circus.ini')
    try:
        model = base_model()
        with open(path, 'w') as f:
            f.write(render(model))
        with World() as w:
            k = w.kernel
            from vtlib.world import pipes as vpipes
            k.pipes = vpipes.PipeTable(k)          # watcher a captures stderr (its stream class is named in the file)
            k.behaviour = lambda i, argv: Beh(obey=0.0)
            # the parser runs outside the tracer: its only input, the file text, is concrete on every path (C16 is about the parser)
            import circus.arbiter as _ca
            real_get_config = _ca.get_config

            def get_config_untraced(path_):
                with rt.untraced():
                    return real_get_config(path_)
            w._patch(_ca, 'get_config', get_config_untraced)
            w.boot_from_config(path)
            arb = w.arbiter
            history = []
            ok = True
            after_failure = False
            from vtlib.harness.c15 import coherent
            for e in edits:
                old_model = model
                model = apply_edit(model, e, history)
                with open(path, 'w') as f:
                    f.write(render(model))
                before_pids = dict((x.name.lower(), sorted(x.processes)) for x in arb.watchers)
                n_spawn, n_sig = len(k.spawn_log), len(k.signal_log)
                r = w.call('reloadconfig', waiting=True, max_time=30.0)
                w.quiesce()
                w.run_for(0.5)
                if 'singleton' in model.get('b', {}):
                    # the file is invalid: the reload may fail (having applied part of it), but the directory has to stay coherent (C15);
                    # from here on only convergence is claimed: the next valid file must be reached all the same
                    if S.get('directory'):
                        ok = coherent(w) and ok
                    after_failure = True
                    if not ok:
                        break
                    continue
                if not r.replies or r.status != 'ok':
                    rt.note('reloadconfig after %r: %r', e, r.reply)
                    ok = False
                    break
                # 1. the daemon runs exactly what the file defines
                with rt.untraced():
                    exp = expected_options(path)
                live = dict((x.name.lower(), x) for x in arb.watchers)
                if sorted(exp) != sorted(live) or sorted(exp) != sorted(arb._watchers_names):
                    rt.note('after %r the file defines %r, the daemon runs %r', edits, sorted(exp), sorted(live))
                    ok = False
                for name in exp:
                    if name not in live:
                        continue
                    x = live[name]
                    got = dict((kk, repr(vv)) for kk, vv in x.options())
                    if got != exp[name]:
                        diff = [(kk, got.get(kk), exp[name].get(kk)) for kk in exp[name] if got.get(kk) != exp[name].get(kk)]
                        rt.note('watcher %s after %r: options differ from a fresh start: %r', name, edits, diff[:4])
                        ok = False
                    if x.is_active() and len(k.alive_pids(x.name)) != x.numprocesses:
                        rt.note('watcher %s: %d live, numprocesses %d', name, len(k.alive_pids(x.name)), x.numprocesses)
                        ok = False
                # 2. unchanged watchers keep their pids; numprocesses-only edits add / remove exactly the difference
                for name in (model if not after_failure else ()):
                    if name in old_model and old_model[name] == model[name] and name in live:
                        if sorted(live[name].processes) != before_pids.get(name):
                            rt.note('unchanged watcher %s was disturbed by %r: pids %r -> %r', name, e, before_pids.get(name),
                                    sorted(live[name].processes))
                            ok = False
                    elif name in old_model and name in live:
                        o, n = dict(old_model[name]), dict(model[name])
                        d = n.pop('numprocesses') - o.pop('numprocesses')
                        if o == n:      # numprocesses alone changed
                            kept = set(before_pids.get(name, [])) & set(live[name].processes)
                            if len(kept) != min(len(before_pids.get(name, [])), model[name]['numprocesses']):
                                rt.note('numprocesses-only change of %s (%+d) replaced workers: %r -> %r', name, d,
                                        before_pids.get(name), sorted(live[name].processes))
                                ok = False
                if old_model == model and not after_failure:
                    if (len(k.spawn_log), len(k.signal_log)) != (n_spawn, n_sig):
                        rt.note('reload of an unchanged file caused kernel activity: spawns %d->%d signals %d->%d', n_spawn,
                                len(k.spawn_log), n_sig, len(k.signal_log))
                        ok = False
                # 3. removed watchers leave nothing behind
                for name in old_model:
                    if name not in model and k.workers(name):
                        rt.note('removed watcher %s still has workers %r', name, [p.pid for p in k.workers(name)])
                        ok = False
                if S.get('directory'):
                    ok = coherent(w) and ok
                if not ok:
                    break
            if ok and S.get('directory') and not after_failure:
                # global requests address exactly the watchers of the directory: stop everything, start everything
                w.call('stop', waiting=True, max_time=30.0)
                w.quiesce()
                w.call('start', waiting=True, max_time=30.0)
                w.quiesce()
                names = set(x.name.lower() for x in arb.watchers)
                ghosts = sorted(set(p.tag for p in k.workers(None) if p.tag is not None and p.tag.lower() not in names))
                if ghosts:
                    rt.note('after %r a global stop + start runs workers of watchers that are not in the directory: %r', edits, ghosts)
                    ok = False
                ok = coherent(w) and ok
            return rt.verdict(ok)
    except (scen.Diverged, scen.BlockedLoop):
        return rt.skip()
    finally:
        shutil.rmtree(tmp, ignore_errors=True)


def _canary_np_recreates():
    """a numprocesses-only change is treated like any other change: the watcher is stopped and re-created"""
    import circus.arbiter as ca

    class DD(ca.DictDiffer):
        def changed(self):
            r = ca.DictDiffer.changed(self)
            if r == set(['numprocesses']):
                return set(['numprocesses', 'cmd'])
            return r
    ca.DictDiffer = DD


def _canary_raw_env():
    """the reload baseline keeps the raw (unparsed) env: every reload re-creates watchers with env"""
    import circus.watcher as cw

    @classmethod
    def load_from_config(cls, config):
        cfg = config.copy()
        if 'env' in config:
            config['env'] = cw.parse_env_dict(config['env'])
            cfg['env'] = dict((k, v + ' ') for k, v in cfg['env'].items())
        w = cls(name=config.pop('name'), cmd=config.pop('cmd'), **config)
        w._cfg = cfg
        return w
    cw.Watcher.load_from_config = load_from_config


CANARIES = {
    'numprocesses_change_recreates_watcher': {'apply': _canary_np_recreates, 'conds': ['c12_reload'], 'shards': [{'e1': 3, 'K': 2}],
                                              'what': 'numprocesses-only edit restarts the whole watcher'},
    'baseline_env_not_normalised': {'apply': _canary_raw_env, 'conds': ['c12_reload'], 'shards': [{'e1': 6, 'K': 2}],
                                    'what': 'watchers with env are re-created on every reload'},
}

KNOWN = []


def plan(tier):
    q = tier == 'quick'
    sh = [{'e1': i, 'K': 2 if q else 3} for i in range(len(EDITS))]
    if q:
        sh += [{'e1': i, 'K': 3} for i in (3, 6)]
    return [
        Cond('c12_reload', shards=sh, budget=240 if q else 1800, twins=2,
             bounds={'e1': 'S: shard key over %r' % (EDITS,), 'e2,e3': 'S: same menu', 'K': 'S{2,3}'}),
    ]
