"""C17 -- captured worker output is delivered complete, in order, once, correctly labelled (daemon side).

Real code under the solver: Redirector / Redirector.Handler.__call__ / add_redirections / remove_redirections /
remove_fd / start / stop, Watcher._create_redirectors / spawn_process / kill_process / reap_process,
Process.close_output_channels / stop.  World: vtlib.world + vtlib.world.pipes (fake pipes with a lowest-free fd
allocator, so descriptor numbers are reused across generations like a kernel's).
"""
from vtlib import rt
from vtlib.driver import Cond
from vtlib.harness import scen
from vtlib.harness.scen import World, Beh
from vtlib.world import pipes as vpipes

PROPERTY = 'C17'
TITLE = 'Captured worker output is delivered complete, in order, once, correctly labelled'
FUNCTIONS = ['circus/stream/redirector.py:Redirector.Handler.__call__', 'circus/stream/redirector.py:Redirector.add_redirections',
             'circus/stream/redirector.py:Redirector.remove_redirections', 'circus/stream/redirector.py:Redirector.remove_fd',
             'circus/stream/redirector.py:Redirector._start_one', 'circus/stream/redirector.py:Redirector._stop_one',
             'circus/watcher.py:Watcher.spawn_process', 'circus/watcher.py:Watcher.kill_process', 'circus/process.py:Process.close_output_channels']
ASSUMPTIONS = [
    'daemon side only: pipes, the selector and the descriptor table are the stubs of vtlib.world.pipes (POSIX contract stated there); a real '
    'kernel\'s pipe buffers and the real epoll are outside the claim',
    'completeness is required for what a worker wrote and the loop had the chance to drain before that worker was terminated; output still in '
    'the pipe when a worker is killed may be lost (not claimed either way)',
]
EXPLANATION = ('C17: two workers (optionally with a helper child that keeps the pipes open) with stdout and stderr captured by a collecting stream; '
               'K<=4 events from {write n bytes (n around the 1024-byte read buffer), loop turns, close a pipe, worker dies and is respawned, sibling '
               'restarted by a kill request}; oracle per (pid, channel) on byte streams, handler bookkeeping, spinning and the fake fd table. ')

SIZES = (1, 1023, 1024, 1025, 2049, 4096)
KINDS = ('write', 'turn', 'close', 'die', 'kill_sibling', 'write_both', 'kill_async', 'swap_stream')


class Collector(object):
    def __init__(self, channel, items=None):
        self.channel = channel
        self.items = [] if items is None else items       # a replacement stream appends to the same record
        self.closed = False
        self.after_close = 0

    def __call__(self, data):
        if self.closed:
            self.after_close += 1                           # delivered to a stream that is no longer the configured one
            return
        self.items.append((data['pid'], data['name'], bytes(data['data'])))

    def close(self):
        self.closed = True


def c17_streams(k1: int, a1: int, b1: int, k2: int, a2: int, b2: int, k3: int, a3: int, b3: int, k4: int, a4: int, b4: int) -> bool:
    """
    pre: k1 == rt.S['k1'] and 0 <= k2 < len(KINDS) and 0 <= k3 < len(KINDS) and 0 <= k4 < len(KINDS)
    pre: 0 <= a1 <= 1 and 0 <= a2 <= 1 and 0 <= a3 <= 1 and 0 <= a4 <= 1
    pre: 0 <= b1 < len(SIZES) and 0 <= b2 < len(SIZES) and 0 <= b3 < len(SIZES) and 0 <= b4 < len(SIZES)
    pre: rt.S.get('K', 3) >= 4 or (k4 == 1 and a4 == 0 and b4 == 0)
    pre: rt.S.get('K', 3) >= 3 or (k3 == 1 and a3 == 0 and b3 == 0)
    pre: b1 < rt.S.get('nsizes', len(SIZES)) and b2 < rt.S.get('nsizes', len(SIZES)) and b3 < rt.S.get('nsizes', len(SIZES))
    post: _
    """
    S = rt.S
    K = S.get('K', 3)
    evs = [(rt.pick(k, len(KINDS)), rt.pick(a, 2), rt.pick(b, len(SIZES)))
           for k, a, b in ((k1, a1, b1), (k2, a2, b2), (k3, a3, b3), (k4, a4, b4))][:K]
    with World() as w:
        k = w.kernel
        table = vpipes.PipeTable(k)
        k.pipes = table
        helper = S.get('helper', 0)
        k.behaviour = lambda i, argv: Beh(obey=S.get('obey', 0.0), nchildren=helper)
        out, err = Collector('stdout'), Collector('stderr')
        wa = w.mk_watcher('a', numprocesses=2, graceful_timeout=0.2, stdout_stream={'stream': out}, stderr_stream={'stream': err})
        # count handler invocations per fd (instrumentation around the real method)
        import circus.stream.redirector as rd
        calls = []
        real_call = rd.Redirector.Handler.__call__

        def counted(self, fd, events):
            calls.append((fd, self.process.pid, self.name))
            return real_call(self, fd, events)
        w._patch(rd.Redirector.Handler, '__call__', counted)
        w.boot([wa], check_delay=-1)
        seq = 0
        ok = True
        retired = []
        try:
            for (kind, a, b) in evs:
                kd = KINDS[kind]
                live = k.workers('a', ('alive',))
                if kd in ('write', 'write_both') and live:
                    p = live[a % len(live)]
                    seq += 1
                    payload = bytes([65 + (seq % 26)]) * SIZES[b]
                    table.write(p.pid, 'stdout' if (b + a) % 2 == 0 or kd == 'write_both' else 'stderr', payload)
                    if kd == 'write_both':
                        table.write(p.pid, 'stderr', bytes([97 + (seq % 26)]) * SIZES[(b + 1) % len(SIZES)])
                elif kd == 'turn':
                    w.run_for(0.01 if a == 0 else 0.2)
                elif kd == 'close' and live:
                    p = live[a % len(live)]
                    w.run_for(0.3)
                    table.close_write_end(p.pid, 'stdout' if b % 2 == 0 else 'stderr')
                    w.run_for(0.05)
                elif kd == 'die' and live:
                    w.run_for(0.3)              # drained first (see ASSUMPTIONS)
                    p = live[a % len(live)]
                    k.external_kill(p.pid)
                    for c in k.children_of(p.pid, True):
                        pass
                    if b % 2 == 0:
                        w.run_for(0.05)
                    w.check_now()
                    w.run_for(0.2)
                elif kd == 'kill_async' and live:
                    # a kill request is sleeping in its poll while the worker dies, is reaped and replaced by the periodic check
                    w.run_for(0.3)
                    p = live[a % len(live)]
                    w.send('kill', name='a', pid=p.pid)
                    w.run_for(0.06)
                    k.external_kill(p.pid)
                    w.run_for(0.002)
                    w.check_now()
                    w.run_for(0.3)
                elif kd == 'swap_stream':
                    # the stdout stream is reconfigured at run time (`set <watcher> stdout_stream.*`): the old stream object is
                    # closed, running workers keep writing and their output belongs to the new one
                    w.run_for(0.3)
                    old_out = wa.stdout_stream
                    fresh = Collector('stdout', items=out.items)
                    retired.append(old_out)
                    try:
                        wa.set_opt('stdout_stream.stream', fresh)
                    except Exception as e_:   # noqa -- refused (conflict): nothing changed
                        retired.pop()
                    w.run_for(0.05)
                elif kd == 'kill_sibling' and live:
                    w.run_for(0.3)
                    p = live[a % len(live)]
                    w.call('kill', name='a', pid=p.pid, waiting=True, max_time=10.0)
                    w.check_now()
                    w.run_for(0.2)
            w.run_for(0.5)
            w.check_now()
            w.run_for(0.5)
        except scen.BlockedLoop as e:
            rt.note('the daemon blocked: %s', e)
            return rt.verdict(False)
        except scen.Diverged:
            return rt.skip()
        if table.blocked_reads:
            rt.note('a read on a worker pipe blocked the loop (%d times)', table.blocked_reads)
            ok = False
        for old_ in retired:
            if getattr(old_, 'after_close', 0):
                rt.note('%d chunk(s) were delivered to a stream object that had been replaced and closed', old_.after_close)
                ok = False
        # per (pid, channel): complete, in order, once, correctly labelled
        got = {}
        for coll in (out, err):
            for (pid, name, data) in coll.items:
                if name != coll.channel:
                    rt.note('data labelled %r delivered to the %s stream', name, coll.channel)
                    ok = False
                got.setdefault((pid, name), bytearray()).extend(data)
        for p in table.history:
            key = (p.owner_pid, p.name)
            delivered = bytes(got.get(key, b''))
            written = bytes(p.written)
            if delivered != written:
                kp = k.procs[p.owner_pid]
                if kp.state != 'alive' and written.startswith(delivered) and False:
                    continue
                rt.note('worker %d %s: wrote %d bytes, stream got %d (%s)', p.owner_pid, p.name, len(written), len(delivered),
                        'prefix ok' if written.startswith(delivered) else 'CONTENT DIFFERS / reordered / duplicated')
                ok = False
        for key in got:
            if key not in [(p.owner_pid, p.name) for p in table.history]:
                rt.note('data attributed to %r which never had such a pipe', key)
                ok = False
        # bookkeeping after EOF, no spinning
        red = wa.stream_redirector
        for p in table.history:
            if p.eof_delivered:
                later = 0
                seen_eof = False
                for (fd, n, res) in table.reads:
                    if fd == p.fd and res == 0:
                        seen_eof = True
                if red is not None and p.fd in table.open and table.open[p.fd] is p and (p.fd in red.pipes or p.fd in red._active):
                    rt.note('fd %d (worker %d %s) reached EOF but is still watched', p.fd, p.owner_pid, p.name)
                    ok = False
        n_eof_reads = len([1 for (fd, n, res) in table.reads if res == 0])
        n_eof_pipes = len([1 for p in table.history if p.eof_delivered])
        if n_eof_reads > n_eof_pipes:
            rt.note('EOF was read %d times for %d pipes: the handler keeps firing on a closed pipe', n_eof_reads, n_eof_pipes)
            ok = False
        # no descriptor leaked per generation: only the live workers' pipes are open
        live_pids = set(k.alive_pids('a'))
        for fd, p in table.open.items():
            if p.owner_pid not in live_pids:
                rt.note('fd %d of dead worker %d (%s) is still open in the daemon', fd, p.owner_pid, p.name)
                ok = False
        if len(table.open) > 2 * len(live_pids):
            ok = False
        if red is not None:
            for fd in list(red._active) + list(red.pipes):
                if fd not in table.open:
                    rt.note('redirector still tracks fd %d which is closed', fd)
                    ok = False
        return rt.verdict(ok)


def _canary_no_stop_one():
    """add_redirections no longer drops a stale handler registered under a reused fd"""
    import circus.stream.redirector as rd

    def add_redirections(self, process):
        for name, pipe in self.get_process_pipes(process):
            fd = pipe.fileno()
            self.pipes[fd] = name, process, pipe
            if self.running:
                self._start_one(fd, name, process, pipe)
        process.redirected = True
    rd.Redirector.add_redirections = add_redirections


def _canary_drain_loop():
    """the handler keeps reading while the last read filled the buffer"""
    import circus.stream.redirector as rd
    import errno

    def __call__(self, fd, events):
        if not (events & rd.ioloop.IOLoop.READ):
            if events == rd.ioloop.IOLoop.ERROR:
                self.redirector.remove_fd(fd)
            return
        while True:
            data = rd.os.read(fd, self.redirector.buffer)
            if len(data) == 0:
                self.redirector.remove_fd(fd)
                return
            self.redirector.redirect[self.name]({'data': data, 'pid': self.process.pid, 'name': self.name})
            if len(data) < self.redirector.buffer:
                return
    rd.Redirector.Handler.__call__ = __call__


def _canary_swap_label():
    import circus.stream.redirector as rd

    def get_process_pipes(process):
        if process.pipe_stdout:
            yield 'stdout', process.stderr
        if process.pipe_stderr:
            yield 'stderr', process.stdout
    rd.Redirector.get_process_pipes = staticmethod(get_process_pipes)


CANARIES = {
    'stale_handler_survives_fd_reuse': {'apply': _canary_no_stop_one, 'conds': ['c17_streams'], 'shards': [{'k1': 3, 'K': 3, 'helper': 1, 'nsizes': 2}],
                                        'what': 'output of the next generation is lost when its pipes reuse the fds of an unreaped predecessor'},
    'handler_drains_in_a_loop': {'apply': _canary_drain_loop, 'conds': ['c17_streams'], 'shards': [{'k1': 0, 'K': 2, 'helper': 0}],
                                 'what': 'a write of exactly k x 1024 bytes makes the handler block in os.read'},
    'channels_swapped': {'apply': _canary_swap_label, 'conds': ['c17_streams'], 'shards': [{'k1': 0, 'K': 2, 'helper': 0}],
                         'what': 'stdout data is delivered as stderr'},
}


def plan(tier):
    q = tier == 'quick'
    sh = []
    for k1 in range(len(KINDS)):
        sh.append({'k1': k1, 'K': 2, 'helper': 0, 'nsizes': 4} if q else {'k1': k1, 'K': 3, 'helper': 0, 'nsizes': 4})
    sh.append({'k1': 3, 'K': 3, 'helper': 1, 'nsizes': 1 if q else 2})
    sh.append({'k1': 6, 'K': 2, 'helper': 0, 'obey': 0.5, 'nsizes': 2 if q else 4})
    if not q:
        sh.append({'k1': 0, 'K': 3, 'helper': 0, 'nsizes': 2})
    if not q:
        for k1 in range(len(KINDS)):
            sh.append({'k1': k1, 'K': 4, 'helper': 0, 'nsizes': 2})
            sh.append({'k1': k1, 'K': 3, 'helper': 1, 'nsizes': 3})
    return [
        Cond('c17_streams', shards=sh, budget=300 if q else 2400, twins=2,
             bounds={'events': 'S: K<=3 (thorough 4) of %r' % (KINDS,), 'worker': 'S{0,1}', 'size': 'S%r bytes (read buffer 1024)' % (SIZES,),
                     'helper': 'S{no helper, a child that keeps the pipes open after the worker died}'}),
    ]
