"""C08 -- shutdown is complete: nothing is left behind after quit or a termination signal (daemon side).

Real code under the solver: circusd.main (argument parsing, pid file, start / restart loop, finally-block),
Arbiter.load_from_config / start / start_io_loop / stop / _stop_watchers / stop_controller_and_close_sockets,
SysHandler.signal / quit, Controller.dispatch / stop, the quit command, Pidfile.create / validate / unlink,
CircusSocket.close.  World: vtlib.world; the daemon's own loop.start() runs on the virtual-time loop.
"""
import errno
import os
import shutil
import signal
import sys
import tempfile

from vtlib import rt
from vtlib.driver import Cond
from vtlib.harness import scen
from vtlib.harness.scen import World, Beh
from vtlib.world import core

PROPERTY = 'C08'
TITLE = 'Shutdown is complete: nothing is left behind after quit or a termination signal'
FUNCTIONS = ['circus/circusd.py:main', 'circus/arbiter.py:Arbiter.start', 'circus/arbiter.py:Arbiter.stop', 'circus/arbiter.py:Arbiter._stop_watchers',
             'circus/arbiter.py:Arbiter.stop_controller_and_close_sockets', 'circus/sighandler.py:SysHandler.signal', 'circus/sighandler.py:SysHandler.quit',
             'circus/controller.py:Controller.stop', 'circus/commands/quit.py:Quit.execute', 'circus/pidfile.py:Pidfile.create',
             'circus/pidfile.py:Pidfile.validate', 'circus/pidfile.py:Pidfile.unlink', 'circus/sockets.py:CircusSocket.close']
ASSUMPTIONS = [
    'daemon side only: the signal is delivered by calling the real SysHandler.signal at a chosen kernel call / virtual time (as the interpreter '
    'would between two bytecodes); real signal delivery, the exit status seen by a parent process and daemonize() are outside the claim',
    'real pid file and real managed sockets in a scratch directory; simulated kernel, clock and zmq',
    'the liveness probe of the pid file (os.kill(pid, 0)) is answered from a menu: alive, dead (ESRCH), alive but not ours (EPERM)',
]
EXPLANATION = ('C08: the real circusd.main() on a generated configuration (1-2 watchers, obedient / stubborn workers, a unix and an inet socket, a '
               'pid file), a shutdown trigger {quit request, SIGTERM, SIGINT, SIGQUIT} delivered at any kernel call d or after a request that starts an '
               'exclusive operation; and the pid-file protocol over structured file contents. ')

TRIGGERS = ('quit', 'quit_waiting', int(signal.SIGTERM), int(signal.SIGINT), int(signal.SIGQUIT))
PRE = ('none', 'incr', 'restart', 'reload', 'kill', 'late_socket', 'on_demand', 'on_demand_death', 'changed_watcher', 'changed_socket')


def _config(tmp, stubborn, two, warm, nosock=False, ondemand=False, check_delay=1, aux=False):
    if nosock:
        return '\n'.join(['[circus]', 'check_delay = 1', 'endpoint = tcp://127.0.0.1:5555', 'pubsub_endpoint = tcp://127.0.0.1:5556',
                          'pidfile = %s' % os.path.join(tmp, 'circusd.pid'), '',
                          '[watcher:web]', 'cmd = webprog', 'numprocesses = 2', 'graceful_timeout = 0.4', ''])
    lines = ['[circus]', 'check_delay = %d' % check_delay, 'endpoint = tcp://127.0.0.1:5555', 'pubsub_endpoint = tcp://127.0.0.1:5556',
             'pidfile = %s' % os.path.join(tmp, 'circusd.pid'), '',
             '[watcher:web]', 'cmd = webprog --fd $(circus.sockets.web)', 'numprocesses = 2', 'use_sockets = True',
             'graceful_timeout = 0.4', 'warmup_delay = %d' % (1 if ondemand else warm)] + (['on_demand = True'] if ondemand else []) + ['',
             '[socket:web]', 'path = %s' % os.path.join(tmp, 'web.sock'), '',
             '[socket:api]', 'host = 127.0.0.1', 'port = 0', '']
    if two:
        lines += ['[watcher:bg]', 'cmd = bgprog', 'numprocesses = 1', 'graceful_timeout = 0.4', '']
    if aux:
        # a managed unix socket that no watcher refers to (pre=changed_socket moves it to another path at run time)
        lines += ['[socket:aux]', 'path = %s' % os.path.join(tmp, 'aux.sock'), '']
    return '\n'.join(lines)


def c08_shutdown(ti: int, pi: int, d: int, late: int, rep: int) -> bool:
    """
    rep: the trigger is delivered 1 + rep times, 0.1 s apart (an impatient operator).

    pre: 0 <= ti < len(TRIGGERS) and pi == rt.S['pre'] and 0 <= late <= 2 and 0 <= rep <= rt.S.get('repmax', 0)
    pre: 0 <= d <= rt.S.get('dmax', 30)
    post: _
    """
    S = rt.S
    ti = rt.pick(ti, len(TRIGGERS))
    late = rt.pick(late, 3)
    rep = rt.pick(rep, 3)
    trig = TRIGGERS[ti]
    pre = PRE[rt.pick(pi, len(PRE))]
    tmp = tempfile.mkdtemp(prefix='c08_')
    cfgpath = os.path.join(tmp, 'circus.ini')
    with open(cfgpath, 'w') as f:
        f.write(_config(tmp, S.get('stubborn', False), S.get('two', True), S.get('warm', 0), nosock=(pre == 'late_socket'), ondemand=(pre in ('on_demand', 'on_demand_death')), check_delay=S.get('check_delay', 1), aux=(pre == 'changed_socket')))
    old_argv = sys.argv
    state = {'fired': False, 'hung': False, 'pre_req': None, 'quit_req': None}
    try:
        with World() as w:
            k = w.kernel
            k.behaviour = (lambda i, argv: Beh(obey=None)) if S.get('stubborn') else (lambda i, argv: Beh(obey=0.0))
            import circus.circusd as cd
            import circus.arbiter as ca
            real_get_config = ca.get_config

            def get_config_untraced(p):
                with rt.untraced():
                    return real_get_config(p)
            w._patch(ca, 'get_config', get_config_untraced)
            w._patch(cd, 'get_config', get_config_untraced)
            w._patch(cd, 'configure_logger', lambda *a, **kw: None)
            sys.argv = ['circusd', cfgpath]

            def arbiter():
                return w.context.world_arbiter

            # capture the arbiter main() creates
            real_load = ca.Arbiter.load_from_config

            def load(cls_cfg, loop=None):
                a = real_load(cls_cfg, loop=loop)
                w.arbiter = a
                return a
            w._patch(ca.Arbiter, 'load_from_config', staticmethod(load))

            def fire():
                if state['fired'] or w.arbiter is None or w.arbiter.ctrl is None or not getattr(w.arbiter.ctrl, 'started', False):
                    return
                state['fired'] = True
                for n_ in range(rep):
                    w.vloop.call_later(0.1 * (n_ + 1), (lambda: w.send('quit')) if trig in ('quit', 'quit_waiting') else
                                       (lambda: w.arbiter.ctrl.sys_hdl.signal(trig)))
                if trig in ('quit', 'quit_waiting'):
                    state['quit_req'] = w.send('quit', waiting=(trig == 'quit_waiting'))
                else:
                    w.arbiter.ctrl.sys_hdl.signal(trig)

            def pre_request():
                if pre == 'none' or w.arbiter is None:
                    return
                if pre == 'incr':
                    state['pre_req'] = w.send('incr', name='web', nb=2)
                elif pre == 'restart':
                    state['pre_req'] = w.send('restart', name='web', match='simple')
                elif pre == 'reload':
                    state['pre_req'] = w.send('reload', name='web')
                elif pre in ('on_demand', 'on_demand_death'):
                    # first connection on the managed socket: the next periodic check starts the on_demand watcher IN THE BACKGROUND
                    # (two workers 1 s apart: the watcher is 'starting' for two seconds)
                    w.select_result = [w.arbiter.sockets['web'].fileno()]
                elif pre == 'changed_watcher':
                    # the definition of one watcher is edited and reloadconfig replaces it by a new object (same name, same count)
                    with open(cfgpath) as f_:
                        text_ = f_.read()
                    with open(cfgpath, 'w') as f_:
                        f_.write(text_.replace('cmd = bgprog', 'cmd = bgprog --v2'))
                    state['pre_req'] = w.send('reloadconfig', waiting=True)
                elif pre == 'changed_socket':
                    # the path of a managed unix socket that no watcher uses is edited: reloadconfig closes the old socket and binds a
                    # new one under the same name; every socket the daemon ever bound must be closed and unlinked at exit
                    state['old_socks'] = dict(w.arbiter.sockets)
                    with open(cfgpath) as f_:
                        text_ = f_.read()
                    with open(cfgpath, 'w') as f_:
                        f_.write(text_.replace(os.path.join(tmp, 'aux.sock'), os.path.join(tmp, 'aux2.sock')))
                    state['pre_req'] = w.send('reloadconfig', waiting=True)
                elif pre == 'late_socket':
                    # a managed socket is added to a daemon that started without any, by reloadconfig
                    with open(cfgpath, 'a') as f_:
                        f_.write('\n[socket:late]\npath = %s\n' % os.path.join(tmp, 'late.sock'))
                    state['pre_req'] = w.send('reloadconfig', waiting=True)
                else:
                    state['pre_req'] = w.send('kill', name='web')

            # the trigger lands at kernel call d counted from the moment the controller is up (d == 0: by time instead)
            orig_tick = k.tick
            base = {'calls': None}

            def tick(entry):
                orig_tick(entry)
                if d > 0 and w.arbiter is not None and getattr(w.arbiter.ctrl, 'started', False):
                    if base['calls'] is None:
                        base['calls'] = k.calls
                    if k.calls - base['calls'] >= d:
                        fire()
            k.tick = tick

            def by_time():
                if S.get('in_select') and trig not in ('quit', 'quit_waiting'):
                    # the signal arrives while the idle daemon sleeps in select(): its handler runs there, not in a loop callback
                    def deliver():
                        state['fired'] = True
                        w.arbiter.ctrl.sys_hdl.signal(trig)
                    w.os_signals.append((w.clock.now + 0.37 + 0.4 * late, deliver))
                    return
                pre_request()
                if pre in ('late_socket', 'changed_watcher', 'changed_socket'):
                    w.vloop.call_later(1.0 + 0.1 * late, fire)       # after the reloadconfig has completed
                elif pre == 'on_demand':
                    w.vloop.call_later(0.75 + 0.4 * late, fire)      # check_delay 1 s: the start begins at the next whole second
                elif pre == 'on_demand_death':
                    # the on_demand watcher is up (two workers), one of them is killed from outside, a periodic check notices; then the trigger
                    def one_dies():
                        alive = k.alive_pids('web')
                        if alive:
                            k.external_kill(alive[0])
                    w.vloop.call_later(3.2, one_dies)
                    w.vloop.call_later(4.0 + 0.4 * late, fire)
                elif late == 0:
                    fire()
                else:
                    w.vloop.call_later(0.05 if late == 1 else 0.3, fire)
            w.vloop.call_later(2.5, by_time)

            def watchdog():
                state['hung'] = True
                w.vloop.stop()
            w.vloop.call_later(25.0, watchdog)
            code = None
            try:
                cd.main()
            except SystemExit as e:
                code = e.code
            except scen.Diverged:
                return rt.skip()
            except scen.BlockedLoop:
                pass
            if w.clock.tripped:
                if pre == 'kill' and rt.finding_listed('c05.reap_process_busy_wait'):
                    return rt.skip()          # listed C05 finding: reaping while a kill request is in its grace period
                rt.note('the event loop blocked during shutdown (%r, pre=%s, d=%d, late=%d, rep=%d): the daemon never exits', trig, pre, d, late, rep)
                return rt.verdict(False)
            ok = True
            exclusive_at_trigger = state.get('pre_req') is not None or (d > 0)
            if state['hung']:
                if rt.finding_listed('c08.signal_dropped_while_operation_in_flight') and trig not in ('quit', 'quit_waiting') and \
                        (exclusive_at_trigger or pre not in ('none',)):
                    return rt.skip()          # the listed finding needs an operation in flight when the signal arrives
                if rt.finding_listed('c08.signal_dropped_while_operation_in_flight') and trig in ('quit', 'quit_waiting') and \
                        state['quit_req'] is not None and state['quit_req'].status == 'error':
                    return rt.skip()      # a quit REQUEST refused by a conflict is answered with an error: not the finding, not a violation
                rt.note('daemon still running 25 s after %r (pre=%s d=%d late=%d); alive=%r', trig, pre, d, late, k.alive_pids())
                return rt.verdict(False)
            if not state['fired']:
                return rt.skip()
            if code != 0:
                rt.note('exit status %r', code)
                ok = False
            left = [p.pid for p in k.workers(None)]
            if left:
                rt.note('workers left behind: %r', [(p.pid, p.state) for p in k.workers(None)])
                ok = False
            for s in w.context.sockets:
                if not s.closed:
                    rt.note('zmq socket %r left open', s.kind)
                    ok = False
            arb = w.arbiter
            for n, s in arb.sockets.items():
                if s.fileno() != -1:
                    rt.note('managed socket %s left open', n)
                    ok = False
            for n, s in (state.get('old_socks') or {}).items():
                if s.fileno() != -1:
                    rt.note('managed socket %s bound before the reloadconfig left open (fd %d)', n, s.fileno())
                    ok = False
            if pre == 'changed_socket' and getattr(arb.sockets.get('aux'), 'path', None) != os.path.join(tmp, 'aux2.sock'):
                return rt.skip()          # the reloadconfig did not move the socket (refused): nothing to check
            for sockfile in ('web.sock', 'late.sock', 'aux.sock', 'aux2.sock'):
                if os.path.exists(os.path.join(tmp, sockfile)):
                    rt.note('unix socket file %s left behind', sockfile)
                    ok = False
            if pre == 'late_socket' and 'late' not in arb.sockets:
                return rt.skip()          # the reloadconfig did not add the socket (refused): nothing to check
            if os.path.exists(os.path.join(tmp, 'circusd.pid')):
                rt.note('pid file left behind')
                ok = False
            if trig == 'quit_waiting' and state['quit_req'] is not None and not state['quit_req'].replies:
                rt.note('the waiting quit request was never answered')
                ok = False
            return rt.verdict(ok)
    finally:
        sys.argv = old_argv
        shutil.rmtree(tmp, ignore_errors=True)


# ---------------------------------------------------------------------------------------------
CORES = ('', 'SELF', 'LIVE', 'DEAD', 'FOREIGN', '0', '-5', 'abc', '99999999999999999999', '12 34', '0x10', '1e3',
         'BIN_FF', 'BIN_UTF16', 'BIN_TORN')        # the last three: bytes that are not valid UTF-8 (torn write, other encoding)
BINARY = {'BIN_FF': b'\xff\xfe', 'BIN_UTF16': '4242'.encode('utf-16'), 'BIN_TORN': b'42\x9c42'}
FRINGE = ('', ' ', '\n', 'x', '\t', '\x00')
LIVE_PID, DEAD_PID, FOREIGN_PID = 4242, 4343, 4444


def c08_pidfile(ci: int, i: int, j: int, missing: bool) -> bool:
    """
    Pid-file protocol: Pidfile.create refuses iff the file names a live process other than itself (also one it may
    not signal); a stale, empty or garbled file is taken over and rewritten with its own pid; unlink removes it.

    pre: 0 <= ci < len(CORES) and 0 <= i < len(FRINGE) and 0 <= j < len(FRINGE)
    post: _
    """
    ci = rt.pick(ci, len(CORES))
    i = rt.pick(i, len(FRINGE))
    j = rt.pick(j, len(FRINGE))
    import circus.pidfile as pf
    me = 1234
    core_ = CORES[ci]
    text = {'SELF': str(me), 'LIVE': str(LIVE_PID), 'DEAD': str(DEAD_PID), 'FOREIGN': str(FOREIGN_PID)}.get(core_, core_)
    content = FRINGE[i] + text + FRINGE[j]
    tmp = tempfile.mkdtemp(prefix='c08p_')
    path = os.path.join(tmp, 'd.pid')

    class OS(object):
        def kill(self, pid, sig):
            if sig != 0:
                raise AssertionError('pid file code sent a real signal')
            if pid in (LIVE_PID, me):
                return None
            if pid == FOREIGN_PID:
                raise PermissionError(errno.EPERM, 'Operation not permitted')
            raise ProcessLookupError(errno.ESRCH, 'No such process')

        def getpid(self):
            return me

        def __getattr__(self, n):
            return getattr(os, n)
    old_os = pf.os
    pf.os = OS()
    try:
        binary = core_ in BINARY
        if binary:
            content = BINARY[core_]               # fringes do not apply: the raw bytes are the content
        if not missing:
            with open(path, 'wb' if binary else 'w') as f:
                f.write(content)
        # independent reading of the content
        try:
            named = int(content) if not missing and not binary else None
        except ValueError:
            named = None
        must_refuse = named is not None and named > 0 and named != me and named in (LIVE_PID, FOREIGN_PID)
        p = pf.Pidfile(path)
        refused = False
        try:
            p.create(me)
        except (RuntimeError, OSError):
            refused = True
        except ValueError as e:
            rt.note('create() on a pid file holding %r raised %s: the daemon cannot start', content, type(e).__name__)
            return rt.verdict(False)
        ok = True
        now = open(path, 'rb' if binary else 'r').read() if os.path.exists(path) else None
        if binary and now is not None and not refused:
            now = now.decode('utf-8', 'replace')
        if must_refuse:
            if not refused:
                rt.note('pid file content %r names the live process %r: create() took over (file now %r)', content, named, now)
                ok = False
            elif now != content:
                rt.note('refused, but the pid file was modified: %r -> %r', content, now)
                ok = False
        else:
            if refused:
                rt.note('pid file content %r (stale / empty / garbled): create() refused', content)
                ok = False
            elif named != me and (now is None or now.strip() != str(me)):
                rt.note('took over %r but the file now holds %r', content, now)
                ok = False
            if not refused:
                p.unlink()
                if os.path.exists(path):
                    rt.note('unlink left the pid file behind (content was %r)', content)
                    ok = False
        return rt.verdict(ok)
    finally:
        pf.os = old_os
        shutil.rmtree(tmp, ignore_errors=True)


def _canary_eperm_stale():
    import circus.pidfile as pf

    def validate(self):
        if not self.fname:
            return
        try:
            with open(self.fname, "r") as f:
                try:
                    wpid = int(f.read() or 0)
                except ValueError:
                    return
                if wpid <= 0:
                    return
                try:
                    pf.os.kill(wpid, 0)
                    return wpid
                except OSError:
                    return
        except (ValueError, FileNotFoundError):
            return
    pf.Pidfile.validate = validate


def _canary_no_unlink():
    """main() forgets the pid file when the arbiter stops normally"""
    import circus.pidfile as pf
    pf.Pidfile.unlink = lambda self: None


def _canary_sockets_left():
    import circus.arbiter as ca

    def stop_controller_and_close_sockets(self):
        self.ctrl.stop()
        self.evpub_socket.close()
        self._running = False
    ca.Arbiter.stop_controller_and_close_sockets = stop_controller_and_close_sockets


CANARIES = {
    'eperm_means_stale': {'apply': _canary_eperm_stale, 'conds': ['c08_pidfile'], 'what': 'a pid the daemon may not signal is treated as stale'},
    'pid_file_not_removed': {'apply': _canary_no_unlink, 'conds': ['c08_shutdown'], 'shards': [{'pre': 0, 'dmax': 0}],
                             'what': 'pid file left behind at exit'},
    'managed_sockets_not_closed': {'apply': _canary_sockets_left, 'conds': ['c08_shutdown'], 'shards': [{'pre': 0, 'dmax': 0}],
                                   'what': 'managed sockets (and the unix socket file) left at exit'},
}

KNOWN = [
    {'key': 'c08.signal_dropped_while_operation_in_flight', 'fn': 'c08_shutdown', 'shard': {'pre': 2, 'dmax': 0, 'stubborn': True},
     'args': dict(ti=2, pi=2, d=0, late=1, rep=0),
     'what': 'a SIGTERM / SIGINT / SIGQUIT that arrives while an exclusive operation holds the slot (start-up pacing, restart, reload, '
             'periodic check, ...) is turned into a quit dispatch that fails with ConflictError and is dropped: the daemon keeps running'},
]


def plan(tier):
    q = tier == 'quick'
    sh = []
    for pi in range(len(PRE)):
        # on_demand: the watcher is alone (with a second watcher ahead of it in the start order the background start never reaches it)
        extra = {'two': False} if PRE[pi] in ('on_demand', 'on_demand_death') else {}
        sh.append(dict({'pre': pi, 'dmax': 0, 'stubborn': False}, **extra))
        sh.append(dict({'pre': pi, 'dmax': 0, 'stubborn': True}, **extra))
    sh.append({'pre': 0, 'dmax': 0, 'stubborn': True, 'repmax': 2})
    # an idle daemon without periodic check (check_delay -1): nothing wakes the loop but the signal itself
    sh.append({'pre': 0, 'dmax': 0, 'stubborn': False, 'in_select': True, 'check_delay': -1})
    sh.append({'pre': 0, 'dmax': 0, 'stubborn': False, 'in_select': True})
    sh.append({'pre': 0, 'dmax': 12 if q else 40, 'stubborn': False})
    sh.append({'pre': 0, 'dmax': 12 if q else 40, 'stubborn': True, 'warm': 1})
    return [
        Cond('c08_shutdown', shards=sh, budget=300 if q else 1800, twins=2,
             bounds={'trigger': 'S%r' % (TRIGGERS,), 'pre': 'S: request issued just before %r' % (PRE,), 'late': 'S{same instant, +0.05 s, +0.3 s}',
                     'rep': 'S[0,2] extra deliveries of the trigger 0.1 s apart', 'd': 'R[0,dmax] kernel call (after the controller is up) at which the trigger is delivered', 'workers': 'S{obedient, stubborn}'}),
        Cond('c08_pidfile', budget=240 if q else 600, twins=1,
             bounds={'core': 'S%r' % (CORES,), 'PRE,POST': 'S: %r' % (FRINGE,), 'missing': 'S{file exists, no file}',
                     'liveness': 'own pid / live / dead / alive-but-EPERM'}),
    ]
