"""C16 -- configuration files mean what the documentation says.

Real code exercised: config.get_config / read_config / DefaultConfigParser, util.StrictConfigParser._read,
util.replace_gnu_args, Watcher.load_from_config (parse_env_dict).  The ini text is generated from a model chosen by
the solver through selector variables; the expected configuration is computed from the MODEL (documented typing,
defaults and precedence), not from the text.

Honest label: symbolic text cannot be pushed through configparser (CrossHair's regex model disagrees with the real
engine on partly symbolic lines, DESIGN.md 1.8), so every variable here is a selector and the parser runs on
concrete text; the solver enumerates the generator exhaustively.  This is the weakest use of the technique in
this work: bounded-exhaustive over the generator, nothing more.
"""
import os
import shutil
import signal
import tempfile

from vtlib import rt
from vtlib.driver import Cond

PROPERTY = 'C16'
TITLE = 'Configuration files mean what the documentation says'
FUNCTIONS = ['circus/config.py:get_config', 'circus/config.py:read_config', 'circus/config.py:DefaultConfigParser.get',
             'circus/config.py:DefaultConfigParser.items', 'circus/util.py:StrictConfigParser._read', 'circus/util.py:replace_gnu_args',
             'circus/watcher.py:Watcher.load_from_config']
ASSUMPTIONS = [
    'the ini text is concrete on every path (generated from selector variables); the parser is executed outside the symbolic tracer',
    'generated grammar only: no continuation lines, comments, or nested includes beyond one included file',
    'the __name__ key the parser leaves on every watcher dict is ignored (relied upon by circus\' tests); in environments it was a defect (fixed)',
    'references are placed in string-valued options (cmd, args, working_dir, a stream file name, a free-form option) and in [env] values / include',
]
EXPLANATION = ('C16: exhaustive enumeration (by the solver, over selector variables) of a generator of ini files: presence and order of [env], '
               '[env:w1], [env:w*], [env:LIST] sections that define the same variable, a recurring pattern, copy_env, a reference to the variable in '
               'one of five places in three syntaxes, five groups of typed options, an included file; compared with a model-level reader. ')

DEFAULTS = {'args': '', 'numprocesses': 1, 'warmup_delay': 0, 'executable': None, 'working_dir': None, 'on_demand': False, 'shell': False,
            'uid': None, 'gid': None, 'send_hup': False, 'stop_signal': signal.SIGTERM, 'stop_children': False, 'max_retry': 5,
            'graceful_timeout': 30, 'rlimits': {}, 'stderr_stream': {}, 'stdout_stream': {}, 'priority': 0, 'use_sockets': False,
            'singleton': False, 'copy_env': False, 'copy_path': False, 'hooks': {}, 'respawn': True, 'autostart': True}

GROUPS = (
    ({}, {}),
    ({'numprocesses': '3', 'warmup_delay': '2', 'shell': 'yes'}, {'numprocesses': 3, 'warmup_delay': 2, 'shell': True}),
    ({'stop_signal': 'INT', 'graceful_timeout': '4.5', 'priority': '-3', 'max_retry': '7'},
     {'stop_signal': int(signal.SIGINT), 'graceful_timeout': 4.5, 'priority': -3, 'max_retry': 7}),
    ({'singleton': 'true', 'respawn': 'no', 'autostart': '0', 'send_hup': 'on', 'stop_children': 'True', 'on_demand': 'off'},
     {'singleton': True, 'respawn': False, 'autostart': False, 'send_hup': True, 'stop_children': True, 'on_demand': False}),
    ({'rlimit_nofile': '100', 'uid': 'nobody', 'stderr_stream.class': 'StdoutStream', 'hooks.before_start': 'my.mod.fn, true',
      'hooks.after_stop': 'my.mod.g', 'use_sockets': '1', 'close_child_stdin': 'false', 'custom_option': 'free form'},
     {'rlimits': {'nofile': 100}, 'uid': 'nobody', 'stderr_stream': {'class': 'StdoutStream'},
      'hooks': {'before_start': ['my.mod.fn', True], 'after_stop': ['my.mod.g', False]}, 'use_sockets': True, 'close_child_stdin': False,
      'custom_option': 'free form'}),
)
REFS = ('$(circus.env.C16V)', '((circus.env.c16v))', '$(CIRCUS.ENV.C16V)')
PLACES = ('none', 'cmd', 'args', 'working_dir', 'stdout_stream.filename', 'freeform')
PERMS = ((0, 1, 2), (0, 2, 1), (1, 0, 2), (1, 2, 0), (2, 0, 1), (2, 1, 0))


def build(genv, s1, s2, s3, order, ce, place, grp, inc, ce2=0, ref2=0):
    """-> (main ini text, included text or None, expected watchers {name: dict})"""
    env_sections = []
    if s1:
        env_sections.append(('w1', {'C16V': 'one', 'ONLY1': 'x'}))
    if s2:
        env_sections.append(('w*', {'C16V': 'star'}))
    if s3 == 1:
        env_sections.append(('w1,w2', {'C16V': 'list'}))
    elif s3 == 2:
        env_sections.append(('w*, zz', {'C16V': 'late', 'LATE': '1'}))
    elif s3 == 3:
        env_sections.append(('w?', {'C16V': ''}))            # a section that blanks the variable: an EMPTY value is a value
    perm = [i for i in PERMS[order] if i < len(env_sections)]
    env_sections = [env_sections[i] for i in perm]
    genv_items = {}
    if genv >= 1:
        genv_items['C16V'] = 'glob'
    if genv == 2:
        genv_items['FROM_DAEMON'] = '$(circus.env.C16DAEMON)/cur'
    ref = REFS[place % len(REFS)]
    w1 = {'cmd': 'prog1 --x'}
    w2 = {'cmd': 'prog2'}
    pl = PLACES[place]
    if pl == 'cmd':
        w1['cmd'] = 'prog1 --v ' + ref
    elif pl == 'args':
        w1['args'] = '-a ' + ref + ' -b'
    elif pl == 'working_dir':
        w1['working_dir'] = '/srv/' + ref
    elif pl == 'stdout_stream.filename':
        w1['stdout_stream.class'] = 'FileStream'
        w1['stdout_stream.filename'] = '/log/' + ref + '.log'
    elif pl == 'freeform':
        w1['plugin_hint'] = 'x-' + ref
    if ce:
        w1['copy_env'] = 'true'
    if ce2:
        w2['copy_env'] = 'yes'
    if ref2:
        # the second watcher refers to a variable that only the FIRST watcher's private section defines, and to the shared one
        w2['args'] = '--only $(circus.env.ONLY1) --v $(circus.env.C16V)'
    w1.update(GROUPS[grp][0])
    lines = ['[circus]', 'check_delay = -1']
    if inc:
        lines.append('include = $(circus.env.C16INC)/extra.ini')
    lines.append('')
    blocks = []
    blocks.append(['[watcher:w1]'] + ['%s = %s' % kv for kv in w1.items()])
    if genv:
        blocks.append(['[env]'] + ['%s = %s' % kv for kv in genv_items.items()])
    for pat, items in env_sections:
        blocks.append(['[env:%s]' % pat] + ['%s = %s' % kv for kv in items.items()])
    w2_block = ['[watcher:w2]'] + ['%s = %s' % kv for kv in w2.items()]
    included = None
    if inc:
        included = '\n'.join(w2_block) + '\n'
    else:
        blocks.insert(1 if order % 2 else len(blocks), w2_block)
    for b in blocks:
        lines.extend(b)
        lines.append('')
    text = '\n'.join(lines)

    # ---- expected, from the model
    daemon = dict(os.environ)
    genv_expanded = dict(genv_items)
    if 'FROM_DAEMON' in genv_expanded:
        genv_expanded['FROM_DAEMON'] = daemon['C16DAEMON'] + '/cur'
    global_env = dict(daemon)
    global_env.update(genv_expanded)
    exp = {}
    for name, opts in (('w1', w1), ('w2', w2)):
        e = dict(DEFAULTS)
        e['rlimits'] = {}
        e['stderr_stream'] = {}
        e['stdout_stream'] = {}
        e['hooks'] = {}
        e['name'] = name
        e['cmd'] = opts['cmd']
        for k in ('args', 'working_dir', 'plugin_hint'):
            if k in opts:
                e[k] = opts[k]
        if 'stdout_stream.filename' in opts:
            e['stdout_stream'] = {'class': 'FileStream', 'filename': opts['stdout_stream.filename']}
        copy_env = (name == 'w1' and ce) or (name == 'w2' and ce2)
        e['copy_env'] = bool(copy_env)
        if name == 'w1':
            for k, v in GROUPS[grp][1].items():
                e[k] = v if not isinstance(v, dict) else dict(v)
        env = dict(global_env) if copy_env else dict(genv_expanded)
        import fnmatch
        for pat, items in env_sections:
            for one in [x.strip() for x in pat.split(',')]:
                if fnmatch.fnmatch(name, one):
                    env.update(items)
        e['env'] = env
        # references expand with: env:NAME over [env] over os.environ
        full = dict(global_env)
        full.update(env)
        val = full.get('C16V')

        only1 = full.get('ONLY1')

        def sub(s):
            for r in REFS:
                s = s.replace(r, val) if val is not None else s
            if only1 is not None:
                s = s.replace('$(circus.env.ONLY1)', only1)       # otherwise an undefined reference stays as written
            return s
        for k in ('cmd', 'args', 'working_dir', 'plugin_hint'):
            if isinstance(e.get(k), str):
                e[k] = sub(e[k])
        if 'filename' in e['stdout_stream']:
            e['stdout_stream']['filename'] = sub(e['stdout_stream']['filename'])
        exp[name] = e
    return text, included, exp


def c16_config(genv: int, s1: int, s2: int, s3: int, order: int, ce: int, place: int, grp: int, inc: int, ce2: int, ref2: int) -> bool:
    """
    pre: 0 <= genv <= 2 and 0 <= s1 <= 1 and 0 <= s2 <= 1 and 0 <= s3 <= 3 and 0 <= order < 6 and 0 <= ce <= 1
    pre: place == rt.S['place'] and 0 <= grp < len(GROUPS) and 0 <= inc <= 1 and 0 <= ce2 <= 1
    pre: ce2 == 0 or (grp == 0 and inc == 0)
    pre: 0 <= ref2 <= 1 and (ref2 == 0 or (grp == 0 and ce2 == 0))
    pre: order < (1, 1, 2, 6)[s1 + s2 + (s3 > 0)]
    pre: genv > 0 or s1 + s2 + (s3 > 0) > 0 or ce == 1 or place == 0
    post: _
    """
    genv = rt.pick(genv, 3)
    s1 = rt.pick(s1, 2)
    s2 = rt.pick(s2, 2)
    s3 = rt.pick(s3, 4)
    order = rt.pick(order, 6)
    ce = rt.pick(ce, 2)
    place = rt.pick(place, len(PLACES))
    grp = rt.pick(grp, len(GROUPS))
    inc = rt.pick(inc, 2)
    ce2 = rt.pick(ce2, 2)
    ref2 = rt.pick(ref2, 2)
    with rt.untraced():
        return rt.verdict(_run(genv, s1, s2, s3, order, ce, place, grp, inc, ce2, ref2))


def _run(genv, s1, s2, s3, order, ce, place, grp, inc, ce2=0, ref2=0):
    from circus.config import get_config
    from circus.watcher import Watcher
    tmp = tempfile.mkdtemp(prefix='c16_')
    os.environ['C16V'] = 'daemonv'
    os.environ['C16DAEMON'] = '/opt/daemon'
    os.environ['C16INC'] = tmp
    try:
        # w2 never matches env:w1; a reference is only placed when the variable is defined for w1 somewhere (always: os.environ)
        text, included, exp = build(genv, s1, s2, s3, order, ce, place, grp, inc, ce2, ref2)
        path = os.path.join(tmp, 'circus.ini')
        with open(path, 'w') as f:
            f.write(text)
        if included is not None:
            with open(os.path.join(tmp, 'extra.ini'), 'w') as f:
                f.write(included)
        cfg = get_config(path)
        cfg2 = get_config(path)
        ok = True
        if cfg != cfg2:
            rt.note('parsing the same files twice gives different configurations')
            ok = False
        got = dict((x['name'], x) for x in cfg['watchers'])
        if sorted(got) != sorted(exp):
            rt.note('watchers %r, expected %r\n%s', sorted(got), sorted(exp), text)
            return False
        for name in exp:
            g, e = got[name], exp[name]
            for k in sorted(set(g) | set(e)):
                if k == '__name__':
                    continue        # section marker kept by the parser on watcher dicts (circus' own tests use it)
                gv, ev = g.get(k, '<absent>'), e.get(k, '<absent>')
                if k == 'env':
                    if gv != ev:
                        diff = [(kk, gv.get(kk), ev.get(kk)) for kk in sorted(set(gv) | set(ev)) if gv.get(kk) != ev.get(kk)]
                        rt.note('%s env differs (got, expected): %r', name, diff[:5])
                        ok = False
                elif gv != ev or (type(gv) is not type(ev) and not (isinstance(gv, int) and isinstance(ev, int))):
                    rt.note('%s.%s = %r (%s), expected %r (%s)', name, k, gv, type(gv).__name__, ev, type(ev).__name__)
                    ok = False
        if not ok:
            rt.note('--- file ---\n%s', text)
        # the watcher built from it carries the same values
        if ok and grp in (0, 1, 2, 3) and PLACES[place] != 'stdout_stream.filename':
            wd = dict(got['w1'])
            wd.pop('plugin_hint', None)
            try:
                x = Watcher.load_from_config(wd)
                if x.numprocesses != exp['w1']['numprocesses'] or x.env != exp['w1']['env'] or x.cmd != exp['w1']['cmd']:
                    rt.note('Watcher.load_from_config disagrees: np=%r env=%r cmd=%r', x.numprocesses, x.env, x.cmd)
                    ok = False
            except Exception as ex:  # noqa
                rt.note('Watcher.load_from_config raised %r', ex)
                ok = False
        return ok
    finally:
        shutil.rmtree(tmp, ignore_errors=True)


def _canary_pattern_once():
    """env:PATTERN sections are folded per pattern: a recurring pattern is applied at its first position"""
    import circus.config as cc
    import inspect
    import textwrap
    src = textwrap.dedent(inspect.getsource(cc.get_config))
    old = '''            for pattern in watcher_patterns:
                match = [w for w in watchers if fnmatch(w['name'], pattern)]

                for watcher in match:
                    watcher['env'].update(env_items)
'''
    new = '''            for pattern in watcher_patterns:
                _folded.setdefault(pattern, {}).update(env_items)
    for pattern, env_items in _folded.items():
        for watcher in [w for w in watchers if fnmatch(w['name'], pattern)]:
            watcher['env'].update(env_items)
'''
    assert old in src
    src = src.replace(old, new).replace("    # build environment for watcher sections\n", "    _folded = {}\n")
    ns = dict(cc.__dict__)
    exec(compile(src, '<canary>', 'exec'), ns)
    cc.get_config = ns['get_config']


def _canary_empty_parser_env():
    """the parser starts with an empty environment until set_env(): [env] values and include cannot see os.environ"""
    import circus.config as cc
    orig = cc.DefaultConfigParser.__init__

    def __init__(self, *a, **kw):
        orig(self, *a, **kw)
        self._env = {}
    cc.DefaultConfigParser.__init__ = __init__


CANARIES = {
    'recurring_pattern_applied_once': {'apply': _canary_pattern_once, 'conds': ['c16_config'], 'shards': [{'place': 0}],
                                       'what': 'later matching env sections no longer override earlier ones when the pattern recurs'},
    'parser_env_empty_before_set_env': {'apply': _canary_empty_parser_env, 'conds': ['c16_config'], 'shards': [{'place': 1}],
                                        'what': '[env] values and include do not see the daemon environment'},
}


def plan(tier):
    return [
        Cond('c16_config', shards=[{'place': i} for i in range(len(PLACES))], budget=300 if tier == 'quick' else 1200, twins=2,
             bounds={'genv': 'S{absent, V, V + a value referring to os.environ}', 's1,s2,s3': 'S: [env:w1], [env:w*], [env:w1,w2] / [env:w*, zz] present',
                     'order': 'S: every permutation of the env sections', 'copy_env': 'S', 'place': 'S%r x 3 reference syntaxes' % (PLACES,),
                     'grp': 'S: %d groups of typed options' % len(GROUPS), 'inc': 'S: second watcher in an included file (include path by reference)'}),
    ]
