"""Run-time shared between the shard runner and the harness functions.

A harness function is executed once per path by CrossHair (symbolic arguments) or once
concretely (replay).  It reads the concrete shard key from ``S`` and reports through
``verdict`` / ``skip`` so that the runner can count paths that reached the oracle and so
that the reachability twin (TWIN) can turn every reached oracle into a refutation.
"""
import json
import os

ROOT = os.path.dirname(os.path.dirname(os.path.abspath(__file__)))

# concrete shard key of the running shard (set by the runner / replayer)
S = {}
# reachability twin: every reached verdict is reported as False
TWIN = False
# counters for this process
COUNT = {'verdicts': 0, 'skips': 0, 'fails': 0}
# free-form notes a harness may leave for the replay report (concrete runs only)
NOTES = []


def reset():
    COUNT['verdicts'] = COUNT['skips'] = COUNT['fails'] = 0
    del NOTES[:]


def verdict(ok):
    """The oracle was reached on this path and evaluated to ``ok``."""
    COUNT['verdicts'] += 1
    if TWIN:
        return False
    if not ok:
        COUNT['fails'] += 1
    return ok


def skip():
    """The path is outside the harness' stated bound (an `assume` inside the body)."""
    COUNT['skips'] += 1
    return True


SYMBOLIC = False     # set by the shard runner: notes are dropped, nothing symbolic is ever formatted


def untraced():
    """Context manager: run ORACLE-side code (never the code under test) outside CrossHair's tracer.  Only for
    computations on values that are concrete on this path (after `pick`)."""
    import contextlib
    if not SYMBOLIC:
        return contextlib.nullcontext()
    from crosshair.tracers import NoTracing, is_tracing
    return NoTracing() if is_tracing() else contextlib.nullcontext()


def pick(i, n):
    """Selector: turn a (symbolic) index in [0, n) into the CONCRETE integer it equals on this path.
    Every comparison is a solver decision, so the solver enumerates the menu and everything
    downstream is concrete (no symbolic floats / strings are derived from it)."""
    for k in range(n):
        if i == k:
            return k
    return n - 1


def note(fmt, *args):
    """Leave a remark for the replay report.  Formatting is lazy (``fmt % args``) and happens only on
    concrete runs, so symbolic values are never rendered to text under CrossHair."""
    if SYMBOLIC:
        return
    try:
        NOTES.append((fmt % args) if args else str(fmt))
    except Exception:  # noqa
        NOTES.append(' '.join([str(fmt)] + [repr(x) for x in args]))


# ---------------------------------------------------------------------------------------
# known findings (never written at run time)

_KF = None


def known_findings():
    global _KF
    if _KF is None:
        _KF = []
        path = os.path.join(ROOT, 'known_findings.jsonl')
        if os.path.exists(path):
            with open(path) as f:
                for line in f:
                    line = line.strip()
                    if line and not line.startswith('#'):
                        _KF.append(json.loads(line))
    return _KF


def finding_listed(key):
    """True iff ``key`` is listed as an open (not fixed) finding."""
    if os.environ.get('VT_NO_EXCLUDE'):
        return False
    for e in known_findings():
        if e.get('key') == key and e.get('status') == 'finding':
            return True
    return False
