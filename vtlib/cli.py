import argparse
import os
import sys


def main(argv=None):
    ap = argparse.ArgumentParser(prog='vt')
    sub = ap.add_subparsers(dest='cmd', required=True)
    sub.add_parser('setup')
    c = sub.add_parser('check')
    c.add_argument('property')
    c.add_argument('--tier', choices=['quick', 'thorough'], default=None)
    c.add_argument('--quiet', action='store_true')
    r = sub.add_parser('replay')
    r.add_argument('path')
    a = ap.parse_args(argv)
    if a.cmd == 'setup':
        print('vt: overlay venv ready (%s)' % sys.executable)
        return 0
    from vtlib import driver
    if a.cmd == 'check':
        tier = a.tier or os.environ.get('VERIF_TIER') or 'quick'
        if tier not in ('quick', 'thorough'):
            tier = 'quick'
        try:
            seed = int(os.environ.get('VERIF_SEED', '0'))
        except ValueError:
            seed = 0
        return driver.check(a.property.upper(), tier, seed, verbose=not a.quiet)
    if a.cmd == 'replay':
        return driver.replay_file(a.path)
    return 3


if __name__ == '__main__':
    sys.exit(main())
