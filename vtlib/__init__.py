"""Solver-based checking of circus: CrossHair (z3) over the real code in /repo."""
