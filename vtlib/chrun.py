"""Shard runner: decide ONE (harness function, shard key) with CrossHair / z3.

Runs in its own process (started by vtlib.driver).  Imports the C-extension modules and
circus from /repo's working tree *before* CrossHair is entered (CrossHair's CLI would prefer
pure-python imports and break ``import zmq``), applies the two version-pinned CrossHair
patches described in DESIGN.md section 1, runs ``analyze_function`` on the harness function and
writes a JSON result: verdict, paths decided, confirmed paths, solver queries / seconds and
the realised counterexample arguments (if any).
"""
import argparse
import importlib
import json
import os
import sys
import time
import traceback


def preimport():
    import zmq  # noqa
    import zmq.utils.jsonapi  # noqa
    import zmq.eventloop.zmqstream  # noqa
    import tornado.ioloop  # noqa
    import tornado.gen  # noqa
    import tornado.concurrent  # noqa
    import psutil  # noqa
    import circus  # noqa
    import circus.util  # noqa
    import circus.watcher  # noqa
    import circus.arbiter  # noqa
    import circus.controller  # noqa
    import circus.client  # noqa
    import circus.circusd  # noqa
    import circus.pidfile  # noqa
    import circus.config  # noqa
    import circus.stream  # noqa
    import circus.commands  # noqa


STATS = {'solver_queries': 0, 'solver_s': 0.0, 'unknown': 0, 'unsupported': 0}
UNSUPPORTED = []
CAPTURED = []
ANALYSES = []


def patch_crosshair():
    import crosshair
    assert crosshair.__version__ == '0.0.110', crosshair.__version__
    import crosshair.core_and_libs  # noqa: registers the opcode patches and library models
    import crosshair.core as core
    import crosshair.statespace as ss

    # (0) CrossHair models functools.lru_cache as "no cache" (it calls __wrapped__): for this work a cache is part of the real
    # code's behaviour (a stale or colliding cache entry is exactly the kind of history dependence the properties forbid),
    # so the real C implementation runs.  Symbolic arguments reaching it are realised when hashed (none do in circus).
    import functools
    core._PATCH_REGISTRATIONS.pop(functools._lru_cache_wrapper.__call__, None)

    # (1) no short-circuiting of annotated / contracted callees: every callee is executed.
    core.ShortCircuitingContext.make_interceptor = lambda self, f: f

    # (1b) no contract enforcement on callees either: circus has no contracts, and the enforcement
    # tracing module costs a Python-level callback for every call executed (measured: 3.5 s -> see DESIGN)
    import contextlib
    import crosshair.enforce as enforce

    @contextlib.contextmanager
    def _no_enforcement(self):
        yield None
    enforce.EnforcedConditions.enabled_enforcement = _no_enforcement

    # (2) ObjectDict raises KeyError from __getattr__; CrossHair probes __ch_* attributes.
    import circus.util as cu
    _orig_getattr = cu.ObjectDict.__getattr__

    def _getattr(self, item):
        if item.startswith('__'):
            raise AttributeError(item)
        return _orig_getattr(self, item)
    cu.ObjectDict.__getattr__ = _getattr

    # statistics: one wrapper around the single solver entry point
    _orig_sat = ss.solver_is_sat

    def solver_is_sat(solver, *exprs):
        t0 = time.perf_counter()
        STATS['solver_queries'] += 1
        try:
            return _orig_sat(solver, *exprs)
        except ss.UnknownSatisfiability:
            STATS['unknown'] += 1
            raise
        finally:
            STATS['solver_s'] += time.perf_counter() - t0
    ss.solver_is_sat = solver_is_sat

    # capture realised counterexample arguments
    _orig_msg = core.make_counterexample_message

    def make_counterexample_message(conditions, args, return_val=None):
        msg = _orig_msg(conditions, args, return_val)
        try:
            with core.NoTracing():
                reprer = core.context_statespace().extra(core.LazyCreationRepr)
                real = reprer.deep_realize(args)
            CAPTURED.append({k: repr(v) for k, v in real.arguments.items()})
        except Exception as e:  # pragma: no cover
            CAPTURED.append({'__capture_error__': repr(e)})
        return msg
    core.make_counterexample_message = make_counterexample_message

    # paths that CrossHair abandons because a library could not take a symbolic value
    import crosshair.util as chutil
    _orig_unsup = chutil.CrosshairUnsupported.__init__

    def _unsup_init(self, *a):
        STATS['unsupported'] += 1
        if len(UNSUPPORTED) < 3:
            UNSUPPORTED.append(''.join(traceback.format_stack(limit=14))[-1800:] + ' :: ' + repr(a)[:300])
        _orig_unsup(self, *a)
    chutil.CrosshairUnsupported.__init__ = _unsup_init

    _orig_tree = core.analyze_calltree

    def analyze_calltree(options, conditions):
        res = _orig_tree(options, conditions)
        ANALYSES.append(res)
        return res
    core.analyze_calltree = analyze_calltree


def main(argv=None):
    ap = argparse.ArgumentParser()
    ap.add_argument('--module', required=True)
    ap.add_argument('--fn', required=True)
    ap.add_argument('--shard', default='{}')
    ap.add_argument('--budget', type=float, default=60.0)
    ap.add_argument('--per-path', type=float, default=30.0)
    ap.add_argument('--twin', action='store_true')
    ap.add_argument('--canary', default=None)
    ap.add_argument('--out', required=True)
    a = ap.parse_args(argv)

    t_wall = time.time()
    out = {'module': a.module, 'fn': a.fn, 'shard': json.loads(a.shard), 'twin': a.twin,
           'canary': a.canary, 'status': 'error', 'paths': 0, 'confirmed_paths': 0}

    def write():
        out['wall_s'] = round(time.time() - t_wall, 3)
        out['cpu_s'] = round(time.process_time(), 3)
        out.update({k: (round(v, 3) if isinstance(v, float) else v) for k, v in STATS.items()})
        tmp = a.out + '.tmp'
        with open(tmp, 'w') as f:
            json.dump(out, f)
        os.replace(tmp, a.out)

    try:
        os.environ['CIRCUS_VERIF'] = '1'
        preimport()
        from vtlib import rt
        rt.S.clear()
        rt.S.update(out['shard'])
        rt.TWIN = a.twin
        rt.SYMBOLIC = True
        mod = importlib.import_module(a.module)
        if a.canary:
            mod.CANARIES[a.canary]['apply']()
        fn = getattr(mod, a.fn)
        patch_crosshair()
        import collections
        import crosshair.core as core
        from crosshair.options import AnalysisOptionSet
        from crosshair.statespace import MessageType
        stats = collections.Counter()
        opts = AnalysisOptionSet(per_condition_timeout=a.budget, per_path_timeout=a.per_path,
                                 max_uninteresting_iterations=sys.maxsize, stats=stats)
        checkables = core.analyze_function(fn, opts)
        if not checkables:
            out['status'] = 'error'
            out['error'] = 'no conditions found on %s' % a.fn
            write()
            return 3
        msgs = core.run_checkables(checkables)
        out['paths'] = stats.get('num_paths', 0)
        out['confirmed_paths'] = sum(x.num_confirmed_paths for x in ANALYSES)
        out['verdict_paths'] = rt.COUNT['verdicts']
        out['skip_paths'] = rt.COUNT['skips']
        out['unsupported_samples'] = UNSUPPORTED
        out['messages'] = [{'state': m.state.value, 'message': m.message[:2000],
                            'tb': (m.traceback or '')[-3000:]} for m in msgs]
        states = {m.state for m in msgs}
        if MessageType.SYNTAX_ERR in states or MessageType.IMPORT_ERR in states:
            out['status'] = 'error'
        elif MessageType.POST_FAIL in states or MessageType.EXEC_ERR in states \
                or MessageType.POST_ERR in states:
            out['status'] = 'refuted'
            out['counterexample'] = CAPTURED[-1] if CAPTURED else None
        elif MessageType.PRE_UNSAT in states:
            out['status'] = 'pre_unsat'
        elif MessageType.CONFIRMED in states and len(states) == 1:
            out['status'] = 'confirmed'
        else:
            out['status'] = 'unknown'
        write()
        return 0
    except BaseException as e:  # noqa
        out['status'] = 'error'
        out['error'] = ''.join(traceback.format_exception(type(e), e, e.__traceback__))[-4000:]
        write()
        return 3


if __name__ == '__main__':
    sys.exit(main())
