"""Build /verif/.venv offline: an overlay on /venv (which has circus' dependencies and /repo in
develop mode) plus crosshair-tool and z3-solver from the local wheelhouse.  Idempotent."""
import fcntl
import os
import subprocess
import sys

ROOT = os.path.dirname(os.path.dirname(os.path.abspath(__file__)))
VENV = os.path.join(ROOT, '.venv')
BASE = '/venv'
WHEELS = '/opt/veriftools/wheels'


def ok():
    py = os.path.join(VENV, 'bin', 'python')
    if not os.path.exists(py):
        return False
    r = subprocess.run([py, '-c', 'import crosshair, z3, zmq, tornado, psutil, circus; '
                        'assert crosshair.__version__ == "0.0.110"'],
                       stdout=subprocess.DEVNULL, stderr=subprocess.DEVNULL)
    return r.returncode == 0


def main():
    lock = open(os.path.join(ROOT, '.venv.lock'), 'w')
    fcntl.flock(lock, fcntl.LOCK_EX)
    if ok():
        return 0
    env = dict(os.environ, PIP_NO_INDEX='1', PIP_DISABLE_PIP_VERSION_CHECK='1')
    subprocess.check_call([os.path.join(BASE, 'bin', 'python'), '-m', 'venv', '--clear', VENV])
    site = subprocess.check_output(
        [os.path.join(VENV, 'bin', 'python'), '-c',
         'import sysconfig; print(sysconfig.get_paths()["purelib"])'], text=True).strip()
    base_site = subprocess.check_output(
        [os.path.join(BASE, 'bin', 'python'), '-c',
         'import sysconfig; print(sysconfig.get_paths()["purelib"])'], text=True).strip()
    with open(os.path.join(site, '_overlay.pth'), 'w') as f:
        f.write(base_site + '\n/repo\n')
    subprocess.check_call([os.path.join(VENV, 'bin', 'python'), '-m', 'pip', 'install', '-q',
                           '--no-index', '--find-links', WHEELS, 'crosshair-tool', 'z3-solver'],
                          env=env)
    if not ok():
        print('bootstrap: overlay venv is not usable', file=sys.stderr)
        return 3
    return 0


if __name__ == '__main__':
    sys.exit(main())
