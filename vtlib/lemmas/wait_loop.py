"""C03 lemma: the wait loop of Watcher.kill_process escalates to SIGKILL neither early nor more than
one polling step late, for EVERY real graceful_timeout up to T_MAX -- including the effect of
accumulating `waited += 0.1` in binary floating point.

Regenerated from /repo on every run: the loop guard, the increment and the sleep constant are read
from the AST of circus.watcher.Watcher.kill_process.  Shape required:

    waited = 0
    while waited < graceful_timeout:
        ...break when the process is gone...
        yield tornado_sleep(c)
        waited += c
    if waited >= graceful_timeout: <SIGKILL>

Any other shape => 'not_applicable' (the CrossHair grid condition c03_grace then stands alone).

Encoding: a_k = the exact rational value of the k-th partial float sum (computed with IEEE doubles,
i.e. by the interpreter, and converted exactly).  The loop runs k times without break iff
a_{k-1} < T <= a_k.  Elapsed time is k*c.  For each k z3 (QF_LRA) is asked for a real T in that
interval with  k*c < T - eps  (SIGKILL early)  or  (k-1)*c >= T + eps  (late by more than a step).
"""
import ast
import inspect
import textwrap
import time
from fractions import Fraction

import z3

T_MAX = 120.0
EPS = Fraction(1, 10 ** 9)


class Unsupported(Exception):
    pass


def extract(fn):
    src = textwrap.dedent(inspect.getsource(fn))
    tree = ast.parse(src)
    fdef = tree.body[0]
    loops = [n for n in ast.walk(fdef) if isinstance(n, ast.While)]
    if len(loops) != 1:
        raise Unsupported('expected exactly one while loop, found %d' % len(loops))
    loop = loops[0]
    t = loop.test
    if not (isinstance(t, ast.Compare) and len(t.ops) == 1 and isinstance(t.ops[0], ast.Lt)
            and isinstance(t.left, ast.Name) and isinstance(t.comparators[0], ast.Name)):
        raise Unsupported('loop guard is not `<name> < <name>`')
    var, bound = t.left.id, t.comparators[0].id
    inc = None
    sleep = None
    for n in ast.walk(loop):
        if isinstance(n, ast.AugAssign) and isinstance(n.target, ast.Name) and n.target.id == var \
                and isinstance(n.op, ast.Add) and isinstance(n.value, ast.Constant):
            inc = n.value.value
        if isinstance(n, ast.Yield) and isinstance(n.value, ast.Call) and n.value.args \
                and isinstance(n.value.args[0], ast.Constant):
            sleep = n.value.args[0].value
    if inc is None or sleep is None:
        raise Unsupported('no constant `%s += c` / `yield sleep(c)` pair in the loop' % var)
    if float(inc) != float(sleep):
        raise Unsupported('increment %r differs from the sleep %r' % (inc, sleep))
    init = None
    for n in ast.walk(fdef):
        if isinstance(n, ast.Assign) and len(n.targets) == 1 and isinstance(n.targets[0], ast.Name) \
                and n.targets[0].id == var and isinstance(n.value, ast.Constant):
            init = n.value.value
    if init != 0:
        raise Unsupported('%s is not initialised to 0' % var)
    esc = False
    for n in ast.walk(fdef):
        if isinstance(n, ast.If) and isinstance(n.test, ast.Compare) and isinstance(n.test.left, ast.Name) \
                and n.test.left.id == var and isinstance(n.test.ops[0], ast.GtE) \
                and isinstance(n.test.comparators[0], ast.Name) and n.test.comparators[0].id == bound:
            if 'SIGKILL' in ast.dump(n):
                esc = True
    if not esc:
        raise Unsupported('no `if %s >= %s: ... SIGKILL` escalation' % (var, bound))
    return {'var': var, 'bound': bound, 'step': float(inc)}


def run(tier):
    res = {'name': 'c03_wait_loop', 'status': 'not_applicable', 'queries': 0, 'solver_s': 0.0}
    try:
        import circus.watcher as cw
        fn = cw.Watcher.kill_process
        while hasattr(fn, '__wrapped__'):
            fn = fn.__wrapped__
        shape = extract(fn)
    except (Unsupported, OSError, TypeError) as e:
        res['detail'] = 'source shape not recognised: %s' % e
        return res
    c = shape['step']
    cq = Fraction(c)
    tmax = T_MAX if tier == 'thorough' else 60.0
    K = int(tmax / c) + 2
    a_prev = Fraction(0)
    acc = 0.0
    queries = 0
    t_solver = 0.0
    T = z3.Real('T')
    sol = z3.Solver()
    witness = None
    for k in range(1, K + 1):
        acc = acc + c                      # the interpreter's own IEEE addition
        a_k = Fraction(acc)
        sol.push()
        sol.add(T > z3.RealVal(str(a_prev)), T <= z3.RealVal(str(a_k)))
        early = z3.RealVal(str(k * cq)) < T - z3.RealVal(str(EPS))
        late = z3.RealVal(str((k - 1) * cq)) >= T + z3.RealVal(str(EPS))
        sol.add(z3.Or(early, late))
        t0 = time.perf_counter()
        r = sol.check()
        t_solver += time.perf_counter() - t0
        queries += 1
        if str(r) == 'sat':
            m = sol.model()
            witness = {'k': k, 'T': str(m[T]), 'elapsed': float(k * cq)}
            sol.pop()
            break
        if str(r) != 'unsat':
            res.update({'status': 'inconclusive', 'detail': 'unknown at k=%d' % k, 'queries': queries,
                        'solver_s': round(t_solver, 3)})
            return res
        sol.pop()
        a_prev = a_k
    res.update({'queries': queries, 'solver_s': round(t_solver, 3), 'encoded': dict(shape, function='circus/watcher.py:Watcher.kill_process'),
                'bounds': 'every real graceful_timeout in (0, %.0f] s; eps = 1e-9 s' % tmax})
    if witness:
        # replay: run the same float loop concretely for the witness timeout
        Tw = float(Fraction(witness['T']))
        waited = 0.0
        n = 0
        while waited < Tw:
            waited += c
            n += 1
        res.update({'status': 'violated' if n == witness['k'] else 'inconclusive', 'witness': witness,
                    'detail': 'graceful_timeout=%r: SIGKILL after %d steps = %.4f s' % (Tw, n, n * c)})
    else:
        res['status'] = 'holds'
        res['detail'] = 'unsat for every k <= %d' % K
    return res
