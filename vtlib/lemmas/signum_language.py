"""C18 lemma: the language of signal designations util.to_signum ACCEPTS is exactly the language
that is VALID -- as two regular-language inclusion queries for z3, with no bound on the length
of the string.

Regenerated from /repo on every run:
  * the regular expression literal and the matching function (match / fullmatch / search) are read
    from the AST of circus.util.to_signum;
  * which names resolve is obtained by running the REAL to_signum on every candidate name of the
    signal module (so a change in the resolution step is picked up);
  * the derived language is validated against the real function on a few hundred strings (z3
    models of both languages, boundary mutations, the literals used by circus' own tests) before
    it is used; if the source shape is not recognised or validation fails the lemma reports
    'not_applicable' and the CrossHair conditions stand alone;
  * every sat witness is replayed on the real to_signum before it is reported.
ASCII strings only (a stated bound: '\u017figterm'.upper() == 'SIGTERM' is outside it).
"""
import ast
import inspect
import re
import signal
import time

try:
    import re._parser as sre_parse
    import re._constants as sre_c
except ImportError:  # pragma: no cover
    import sre_parse
    import sre_constants as sre_c

import z3

ASCII = set(range(128))
CAT = {
    sre_c.CATEGORY_DIGIT: set(map(ord, '0123456789')),
    sre_c.CATEGORY_WORD: set(map(ord, 'abcdefghijklmnopqrstuvwxyzABCDEFGHIJKLMNOPQRSTUVWXYZ0123456789_')),
    sre_c.CATEGORY_SPACE: set(map(ord, ' \t\n\r\f\v')),
}
CAT[sre_c.CATEGORY_NOT_DIGIT] = ASCII - CAT[sre_c.CATEGORY_DIGIT]
CAT[sre_c.CATEGORY_NOT_WORD] = ASCII - CAT[sre_c.CATEGORY_WORD]
CAT[sre_c.CATEGORY_NOT_SPACE] = ASCII - CAT[sre_c.CATEGORY_SPACE]

SSORT = z3.StringSort()
RSORT = z3.ReSort(SSORT)


class Unsupported(Exception):
    pass


def _chr(c):
    return z3.StringVal(chr(c))


def cls_re(codes):
    codes = sorted(c for c in codes if c in ASCII)
    if not codes:
        return z3.Empty(RSORT)
    parts = []
    lo = prev = codes[0]
    for c in codes[1:] + [None]:
        if c is not None and c == prev + 1:
            prev = c
            continue
        parts.append(z3.Re(_chr(lo)) if lo == prev else z3.Range(_chr(lo), _chr(prev)))
        if c is not None:
            lo = prev = c
    return parts[0] if len(parts) == 1 else z3.Union(*parts)


SIGMA = cls_re(ASCII)
SIGMA_STAR = z3.Star(SIGMA)
EPS = z3.Re(z3.StringVal(''))


def in_set(items, ignorecase):
    neg = False
    codes = set()
    for op, av in items:
        if op is sre_c.NEGATE:
            neg = True
        elif op is sre_c.LITERAL:
            codes.add(av)
        elif op is sre_c.RANGE:
            codes.update(range(av[0], av[1] + 1))
        elif op is sre_c.CATEGORY:
            codes |= CAT[av]
        else:
            raise Unsupported('class item %s' % (op,))
    if ignorecase:
        codes |= {ord(chr(c).swapcase()) for c in codes if chr(c).isalpha() and c < 128}
    return (ASCII - codes) if neg else (codes & ASCII)


def first_class(node_seq, ignorecase):
    """If the sub-pattern is a repeat of a single character class return that class (for the
    maximal-munch refinement), else None."""
    if len(node_seq) != 1:
        return None
    op, av = node_seq[0]
    if op in (sre_c.MAX_REPEAT,) and len(av[2]) == 1:
        op2, av2 = av[2][0]
        if op2 is sre_c.IN:
            return in_set(av2, ignorecase)
        if op2 is sre_c.LITERAL:
            return {av2}
    return None


def to_z3(seq, ignorecase=False, dotall=False):
    parts = []
    for op, av in seq:
        if op is sre_c.LITERAL:
            c = chr(av)
            if ignorecase and c.isalpha():
                parts.append(cls_re({ord(c.lower()), ord(c.upper())}))
            else:
                parts.append(z3.Re(_chr(av)) if av < 128 else z3.Empty(RSORT))
        elif op is sre_c.NOT_LITERAL:
            parts.append(cls_re(ASCII - {av}))
        elif op is sre_c.ANY:
            parts.append(cls_re(ASCII if dotall else ASCII - {10}))
        elif op is sre_c.IN:
            parts.append(cls_re(in_set(av, ignorecase)))
        elif op is sre_c.BRANCH:
            parts.append(z3.Union(*[to_z3(b, ignorecase, dotall) for b in av[1]])
                         if len(av[1]) > 1 else to_z3(av[1][0], ignorecase, dotall))
        elif op is sre_c.SUBPATTERN:
            parts.append(to_z3(av[3], ignorecase, dotall))
        elif op in (sre_c.MAX_REPEAT, sre_c.MIN_REPEAT):
            lo, hi, sub = av
            r = to_z3(sub, ignorecase, dotall)
            if hi == sre_c.MAXREPEAT:
                if lo == 0:
                    parts.append(z3.Star(r))
                elif lo == 1:
                    parts.append(z3.Plus(r))
                else:
                    parts.append(z3.Concat(z3.Loop(r, lo, lo), z3.Star(r)))
            elif (lo, hi) == (0, 1):
                parts.append(z3.Option(r))
            else:
                parts.append(z3.Loop(r, lo, hi))
        else:
            raise Unsupported('regex node %s' % (op,))
    if not parts:
        return EPS
    return parts[0] if len(parts) == 1 else z3.Concat(*parts)


def ci_literal(text):
    parts = []
    for ch in text:
        if ch.isalpha():
            parts.append(cls_re({ord(ch.lower()), ord(ch.upper())}))
        else:
            parts.append(z3.Re(z3.StringVal(ch)))
    return parts[0] if len(parts) == 1 else z3.Concat(*parts)


# -------------------------------------------------------------------------------------------
def find_regex_call(fn):
    """-> (func_name, pattern, flags_int) of the single re.<f>(<literal>, ...) call in fn."""
    import textwrap
    src = textwrap.dedent(inspect.getsource(fn))
    tree = ast.parse(src)
    found = []
    for node in ast.walk(tree):
        if isinstance(node, ast.Call) and isinstance(node.func, ast.Attribute) \
                and isinstance(node.func.value, ast.Name) and node.func.value.id == 're' \
                and node.func.attr in ('match', 'fullmatch', 'search') and node.args \
                and isinstance(node.args[0], ast.Constant) and isinstance(node.args[0].value, str):
            flags = 0
            extra = list(node.args[2:]) + [k.value for k in node.keywords if k.arg == 'flags']
            for e in extra:
                try:
                    flags |= int(eval(compile(ast.Expression(e), '<flags>', 'eval'), {'re': re}))
                except Exception:
                    raise Unsupported('flags expression')
            found.append((node.func.attr, node.args[0].value, flags))
    if len(found) != 1:
        raise Unsupported('expected exactly one re.match/fullmatch/search(<literal>, ..) call, found %d' % len(found))
    return found[0]


def build_accepted(func, pattern, flags, resolvable):
    """z3 regex (over-approximating greedy matching) of the strings the name branch accepts."""
    if flags & ~(re.I | re.A | re.S):
        raise Unsupported('flags %r' % flags)
    ic = bool(flags & re.I)
    dotall = bool(flags & re.S)
    parsed = sre_parse.parse(pattern, flags)
    seq = list(parsed)
    begin_anchor = False
    end_anchor = None      # None | 'dollar' | 'Z'
    while seq and seq[0][0] is sre_c.AT and seq[0][1] in (sre_c.AT_BEGINNING, sre_c.AT_BEGINNING_STRING):
        begin_anchor = True
        seq.pop(0)
    while seq and seq[-1][0] is sre_c.AT and seq[-1][1] in (sre_c.AT_END, sre_c.AT_END_STRING):
        end_anchor = 'Z' if seq[-1][1] is sre_c.AT_END_STRING else 'dollar'
        seq.pop()
    if any(op is sre_c.AT for op, _ in seq):
        raise Unsupported('inner anchors')
    # expected top level:  (group 1) [ optional( ... (group 3) ... ) ]
    if not seq or seq[0][0] is not sre_c.SUBPATTERN or seq[0][1][0] != 1:
        raise Unsupported('pattern does not start with capturing group 1')
    g1 = seq[0][1][3]
    rest = seq[1:]
    g1_re = to_z3(g1, ic, dotall)
    names = z3.Union(*[ci_literal(n) for n in sorted(resolvable)]) if resolvable else z3.Empty(RSORT)
    if len(resolvable) == 1:
        names = ci_literal(next(iter(resolvable)))
    g1_ok = z3.Intersect(g1_re, names)
    munch = first_class(g1, ic)
    # suffix allowed after the match
    if func == 'fullmatch' or end_anchor == 'Z':
        tail = EPS
    elif end_anchor == 'dollar':
        tail = z3.Union(EPS, z3.Re(z3.StringVal('\n')))
    else:
        tail = SIGMA_STAR
    if func in ('match', 'fullmatch') or begin_anchor:
        head = EPS
    else:
        head = SIGMA_STAR
    if not rest:
        after = tail
        if munch is not None and tail is SIGMA_STAR:
            after = z3.Union(EPS, z3.Concat(cls_re(ASCII - munch), SIGMA_STAR))
        return z3.Concat(head, g1_ok, after), dict(func=func, begin=begin_anchor, end=end_anchor)
    if len(rest) != 1 or rest[0][0] not in (sre_c.MAX_REPEAT, sre_c.MIN_REPEAT) or rest[0][1][:2] != (0, 1):
        raise Unsupported('expected one optional group after group 1')
    opt_re = to_z3(rest[0][1][2], ic, dotall)
    if munch is not None:
        no_more = z3.Union(EPS, z3.Concat(cls_re(ASCII - munch), SIGMA_STAR))
        tail_absent = z3.Intersect(tail, no_more)
    else:
        tail_absent = tail
    after = z3.Union(z3.Concat(opt_re, tail), tail_absent)
    return z3.Concat(head, g1_ok, after), dict(func=func, begin=begin_anchor, end=end_anchor)


INT_LIT = None


def int_literal_re():
    """ASCII approximation of the strings Python's int() accepts (used only to keep witnesses
    away from the numeric branch; every witness is replayed against the real function anyway)."""
    ws = z3.Star(cls_re(set(map(ord, ' \t\n\r\f\v')) | {28, 29, 30, 31}))
    digits = z3.Plus(cls_re(CAT[sre_c.CATEGORY_DIGIT]))
    body = z3.Concat(digits, z3.Star(z3.Concat(z3.Re(z3.StringVal('_')), digits)))
    return z3.Concat(ws, z3.Option(cls_re({ord('+'), ord('-')})), body, ws)


def valid_names_re():
    parts = []
    for n in sorted(signal.Signals.__members__):
        parts.append(ci_literal(n))
        if n.startswith('SIG') and not n[3:].startswith('SIG'):
            parts.append(ci_literal(n[3:]))
    off = z3.Option(z3.Concat(z3.Re(z3.StringVal('+')), z3.Plus(cls_re(CAT[sre_c.CATEGORY_DIGIT]))))
    return z3.Concat(z3.Union(*parts), off)


def spec_value(s):
    from vtlib.harness.c18 import spec
    return spec(s)


def real(s):
    from circus.util import to_signum
    try:
        return ('ok', int(to_signum(s)))
    except Exception as e:  # noqa
        return ('refused', type(e).__name__)


class Stats:
    def __init__(self):
        self.queries = 0
        self.solver_s = 0.0
        self.results = {'sat': 0, 'unsat': 0, 'unknown': 0}

    def check(self, solver):
        t0 = time.perf_counter()
        r = solver.check()
        self.solver_s += time.perf_counter() - t0
        self.queries += 1
        self.results[str(r)] += 1
        return str(r)


def member(s, regex, st):
    sol = z3.Solver()
    sol.set('timeout', 20000)
    sol.add(z3.InRe(z3.StringVal(s), regex))
    return st.check(sol)


def models(regex, n, st, extra=None):
    out = []
    x = z3.String('x')
    sol = z3.Solver()
    sol.set('timeout', 20000)
    sol.add(z3.InRe(x, regex))
    sol.add(z3.InRe(x, SIGMA_STAR))
    sol.add(z3.Length(x) <= 14)
    if extra is not None:
        sol.add(extra(x))
    for _ in range(n):
        if st.check(sol) != 'sat':
            break
        v = sol.model().eval(x, model_completion=True).as_string()
        v = _unescape(v)
        out.append(v)
        sol.add(x != z3.StringVal(v))
    return out


def _unescape(v):
    return re.sub(r'\\u\{([0-9a-fA-F]+)\}', lambda m: chr(int(m.group(1), 16)), v)


def run(tier):
    st = Stats()
    res = {'name': 'c18_designation_language', 'status': 'not_applicable', 'queries': 0, 'solver_s': 0.0}
    try:
        import circus.util as cu
        func, pattern, flags = find_regex_call(cu.to_signum)
        # which names resolve -- ask the real function
        cands = set()
        for a in dir(signal):
            u = a.upper()
            if u.startswith('SIG'):
                cands.add(u)
                if not u[3:].startswith('SIG') and u[3:]:
                    cands.add(u[3:])
        resolvable = {c for c in cands if real(c)[0] == 'ok'}
        accepted, shape = build_accepted(func, pattern, flags, resolvable)
    except Unsupported as e:
        res['detail'] = 'source shape not recognised: %s' % e
        return res
    intlit = int_literal_re()
    valid = valid_names_re()
    res['encoded'] = {'function': 'circus/util.py:to_signum', 'regex': pattern, 'match_function': func,
                      'anchors': shape, 'resolvable_names': len(resolvable)}

    # ---- validate the derived language against the real function
    probes = set(['TERM', 'sigterm', 'SIGKILL', 'kill ', ' kill', 'TERM x', 'x TERM', 'TERM\n', '\nTERM', 'SIGRTMIN+1',
                  'rtmin+12', 'RTMIN+', 'RTMIN+x', '+1', 'TERM+1+2', '_IGN', 'SIG_DFL', 'sig_block', 'FOO', 'SIG', '',
                  'usr1', 'usr2', 'hup', 'sigint', 'SIGINT', 'quit', 'TERMx', 'xTERM', 'TE RM', 'TERM+1 ', 'CLD', 'sigpoll',
                  'IOT', 'Signals', 'NSIG', 'ITIMER_REAL', 'TERM\x00', 'S\x00', 'TERM.', 'TERM-1', 'TERM_'])
    probes.update(models(accepted, 25, st))
    probes.update(models(z3.Complement(accepted), 15, st))
    probes.update(models(valid, 25, st))
    probes.update(models(z3.Intersect(z3.Complement(valid), z3.Plus(cls_re(CAT[sre_c.CATEGORY_WORD] | {43, 32}))), 15, st))
    for base in list(probes)[:60]:
        for f in ('', ' ', 'x', '1', '_', '+', '\n'):
            probes.add(base + f)
            probes.add(f + base)
    mismatches = []
    n_valid = 0
    for p in sorted(probes):
        if any(ord(c) > 127 for c in p):
            continue
        try:
            int(p)
            is_int = True
        except ValueError:
            is_int = False
        if is_int:
            continue
        m = member(p, accepted, st)
        r = real(p)
        n_valid += 1
        if m == 'unknown':
            continue
        # the encoding over-approximates greedy matching: "model accepts, real refuses" is tolerated
        # here and handled by witness replay; "real accepts, model refuses" means the model is wrong.
        if r[0] == 'ok' and m == 'unsat':
            mismatches.append((p, r, m))
    res['validated_strings'] = n_valid
    if mismatches:
        res['queries'], res['solver_s'] = st.queries, round(st.solver_s, 3)
        res['detail'] = 'derived language disagrees with the real function on %r' % (mismatches[:3],)
        return res

    # ---- Q1: accepted \ (valid U int literals) is empty    (anything else is refused)
    x = z3.String('x')
    sol = z3.Solver()
    sol.set('timeout', 120000)
    sol.add(z3.InRe(x, accepted), z3.InRe(x, SIGMA_STAR))
    sol.add(z3.Not(z3.InRe(x, valid)), z3.Not(z3.InRe(x, intlit)))
    status = 'holds'
    witness = None
    detail = ''
    blocked = 0
    while True:
        r = st.check(sol)
        if r == 'unsat':
            break
        if r == 'unknown':
            status = 'inconclusive'
            detail = 'Q1 unknown: %s' % sol.reason_unknown()
            break
        w = _unescape(sol.model().eval(x, model_completion=True).as_string())
        rr = real(w)
        want = spec_value(w)
        if rr[0] == 'ok' and (want is None or want != rr[1]):
            status = 'violated'
            witness = w
            detail = 'to_signum(%r) -> %r but the designation %s' % (
                w, rr[1], 'must be refused' if want is None else 'denotes %r' % want)
            break
        blocked += 1
        sol.add(x != z3.StringVal(w))
        if blocked >= 60:
            status = 'inconclusive'
            detail = 'Q1: 60 over-approximation witnesses did not reproduce on the real function'
            break
    res['q1_spurious_witnesses_blocked'] = blocked

    # ---- Q2: valid \ accepted is empty     (every valid designation is accepted)
    if status == 'holds':
        sol = z3.Solver()
        sol.set('timeout', 120000)
        sol.add(z3.InRe(x, valid), z3.Not(z3.InRe(x, accepted)), z3.Not(z3.InRe(x, intlit)))
        r = st.check(sol)
        if r == 'sat':
            w = _unescape(sol.model().eval(x, model_completion=True).as_string())
            rr = real(w)
            want = spec_value(w)
            if rr[0] != 'ok' or rr[1] != want:
                status = 'violated'
                witness = w
                detail = 'to_signum(%r) -> %r but the designation denotes %r' % (w, rr, want)
            else:
                status = 'inconclusive'
                detail = 'Q2 witness %r did not reproduce' % w
        elif r == 'unknown':
            status = 'inconclusive'
            detail = 'Q2 unknown: %s' % sol.reason_unknown()

    # ---- value agreement per name (finite: concrete evaluation of the real function)
    n_vals = 0
    if status == 'holds':
        for n in sorted(signal.Signals.__members__):
            for base in (n, n[3:]):
                for sp in (base, base.lower(), base.capitalize()):
                    for off in ('', '+0', '+1', '+12'):
                        s = sp + off
                        n_vals += 1
                        rr = real(s)
                        want = spec_value(s)
                        if rr != ('ok', want):
                            status = 'violated'
                            witness = s
                            detail = 'to_signum(%r) -> %r but the designation denotes %r' % (s, rr, want)
                            break
                    if status != 'holds':
                        break
                if status != 'holds':
                    break
            if status != 'holds':
                break
    res.update({'status': status, 'witness': witness, 'detail': detail, 'queries': st.queries,
                'solver_s': round(st.solver_s, 3), 'results': st.results, 'value_checks': n_vals,
                'bounds': 'ASCII strings of ANY length (no length bound); names = every SIG* attribute of the signal module'})
    return res
