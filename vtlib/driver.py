"""Shard planner, process pool, replay, evidence."""
import dataclasses
import hashlib
import importlib
import json
import os
import random
import shutil
import subprocess
import sys
import tempfile
import time

ROOT = os.path.dirname(os.path.dirname(os.path.abspath(__file__)))


def _pypath():
    """PYTHONPATH of the shard / replay processes.  VT_REPO (development only: tools/mutrun_wt.sh) names a scratch checkout of
    circus to analyse instead of /repo; unset in every registered command."""
    alt = os.environ.get('VT_REPO')
    return ROOT + (os.pathsep + alt if alt else '')

PY = sys.executable
NPROC = int(os.environ.get('VT_JOBS', '0')) or min(16, os.cpu_count() or 4)

MODULES = {
    'C01': 'vtlib.harness.c01', 'C02': 'vtlib.harness.c02', 'C03': 'vtlib.harness.c03',
    'C04': 'vtlib.harness.c04', 'C05': 'vtlib.harness.c05', 'C06': 'vtlib.harness.c06',
    'C07': 'vtlib.harness.c07', 'C08': 'vtlib.harness.c08', 'C09': 'vtlib.harness.c09',
    'C10': 'vtlib.harness.c10', 'C11': 'vtlib.harness.c11', 'C12': 'vtlib.harness.c12',
    'C13': 'vtlib.harness.c13', 'C14': 'vtlib.harness.c14', 'C15': 'vtlib.harness.c15',
    'C16': 'vtlib.harness.c16', 'C17': 'vtlib.harness.c17', 'C18': 'vtlib.harness.c18',
    'C19': 'vtlib.harness.c19', 'C20': 'vtlib.harness.c20',
}


@dataclasses.dataclass
class Cond:
    """One condition = one harness function (PEP-316 contract) + its shard keys."""
    fn: str
    shards: list = dataclasses.field(default_factory=lambda: [{}])
    budget: float = 60.0          # CPU seconds CrossHair may spend per shard
    kind: str = 'confirm'         # 'confirm': expected to be exhausted; 'hunt': bounded bug hunting
    per_path: float = 30.0
    bounds: dict = dataclasses.field(default_factory=dict)   # variable -> 'R[..]' / 'S{..}'
    smoke: list = dataclasses.field(default_factory=list)    # [(shard, {arg: value})] concrete runs that must hold
    twins: int = 2                # number of shards that also run the reachability twin
    note: str = ''


def _enc_args(d):
    return {k: repr(v) for k, v in d.items()}


class Job:
    def __init__(self, kind, module, cond, shard, canary=None, args=None, no_exclude=False):
        self.kind = kind            # main | twin | canary | replay | smoke | known
        self.module = module
        self.cond = cond
        self.shard = shard
        self.canary = canary
        self.args = args
        self.no_exclude = no_exclude
        self.proc = None
        self.out = None
        self.result = None
        self.t0 = None
        self.timed_out = False

    def cmd(self, outpath):
        self.out = outpath
        if self.kind in ('main', 'twin', 'canary'):
            c = [PY, '-m', 'vtlib.chrun', '--module', self.module, '--fn', self.cond.fn,
                 '--shard', json.dumps(self.shard), '--budget', str(self.budget()),
                 '--per-path', str(self.cond.per_path), '--out', outpath]
            if self.kind == 'twin':
                c.append('--twin')
            if self.canary:
                c += ['--canary', self.canary]
            return c
        c = [PY, '-m', 'vtlib.replay', '--module', self.module, '--fn', self.cond.fn,
             '--shard', json.dumps(self.shard), '--args', json.dumps(self.args),
             '--out', outpath]
        if self.canary:
            c += ['--canary', self.canary]
        if self.kind in ('smoke', 'twinreplay'):
            c.append('--trace')
        return c

    def budget(self):
        if self.kind == 'twin':
            return min(self.cond.budget, 60.0)
        return self.cond.budget

    def hard_timeout(self):
        if self.kind in ('main', 'twin', 'canary'):
            return self.budget() * 1.6 + 90
        return 120


def run_pool(jobs, workdir, progress=None):
    """Run jobs with at most NPROC processes; fill job.result."""
    pending = list(jobs)
    running = []
    n = 0
    env = dict(os.environ, PYTHONPATH=_pypath(), PYTHONDONTWRITEBYTECODE='1', CIRCUS_VERIF='1',
               PYTHONHASHSEED='0')
    while pending or running:
        while pending and len(running) < NPROC:
            j = pending.pop(0)
            n += 1
            outpath = os.path.join(workdir, 'job%05d.json' % n)
            e = dict(env)
            if j.no_exclude:
                e['VT_NO_EXCLUDE'] = '1'
            j.t0 = time.time()
            j.log = outpath + '.log'
            with open(j.log, 'w') as lf:
                j.proc = subprocess.Popen(j.cmd(outpath), cwd=ROOT, env=e, stdout=lf,
                                          stderr=subprocess.STDOUT)
            running.append(j)
        time.sleep(0.05)
        for j in list(running):
            rc = j.proc.poll()
            if rc is None and time.time() - j.t0 > j.hard_timeout():
                j.proc.kill()
                j.proc.wait()
                j.timed_out = True
                rc = -9
            if rc is not None:
                running.remove(j)
                if os.path.exists(j.out):
                    with open(j.out) as f:
                        j.result = json.load(f)
                else:
                    tail = ''
                    try:
                        with open(j.log) as f:
                            tail = f.read()[-2000:]
                    except OSError:
                        pass
                    j.result = {'status': 'timeout' if j.timed_out else 'error',
                                'error': 'no result file (rc=%s) %s' % (rc, tail)}
                j.result.setdefault('wall_s', round(time.time() - j.t0, 3))
                if progress:
                    progress(j)


def _short(x, n=160):
    s = json.dumps(x, sort_keys=True) if not isinstance(x, str) else x
    return s if len(s) <= n else s[:n] + '...'


def check(prop, tier, seed, verbose=True):
    t_start = time.time()
    modname = MODULES[prop]
    mod = importlib.import_module(modname)
    plan = mod.plan(tier)
    rnd = random.Random(seed)
    workdir = tempfile.mkdtemp(prefix='vt_%s_' % prop, dir=os.environ.get('VT_TMP') or None)
    log = []

    def say(*a):
        msg = ' '.join(str(x) for x in a)
        log.append(msg)
        if verbose:
            print(msg, flush=True)

    # size the thorough tier by total wall time: the per-shard CPU budgets are capped so that the whole run stays
    # within about VT_THOROUGH_MIN (default 12) minutes on NPROC cores (shards that finish early leave room; the rest is 'not confirmed')
    n_shards = sum(len(c.shards) for c in plan)
    if tier == 'thorough' and n_shards:
        cap = max(60.0, float(os.environ.get('VT_THOROUGH_MIN', '12')) * 60.0 * NPROC / n_shards)
        for c in plan:
            c.budget = min(c.budget, cap)
    say('== %s %s tier=%s seed=%d jobs=%d' % (prop, getattr(mod, 'TITLE', ''), tier, seed, NPROC))
    jobs = []
    for cond in plan:
        for sh in cond.shards:
            jobs.append(Job('main', modname, cond, sh))
        for sh in cond.shards[:max(0, cond.twins)]:
            jobs.append(Job('twin', modname, cond, sh))
        for sh, args in cond.smoke:
            jobs.append(Job('smoke', modname, cond, sh, args=_enc_args(args)))
    canaries = getattr(mod, 'CANARIES', {})
    by_fn = {c.fn: c for c in plan}
    for cname, c in canaries.items():
        if tier == 'quick' and not c.get('quick', True):
            continue
        for fn in c['conds']:
            if fn in by_fn:
                cond = by_fn[fn]
                for sh in (c.get('shards') or cond.shards[:1]):
                    jobs.append(Job('canary', modname, cond, sh, canary=cname))
    # known-finding witnesses (concrete, with the exclusion switched off)
    from vtlib import rt
    known_lines = []
    for k in getattr(mod, 'KNOWN', []):
        if rt.finding_listed(k['key']):
            cond = Cond(fn=k['fn'])
            jobs.append(Job('known', modname, cond, k.get('shard', {}), args=_enc_args(k['args']),
                            no_exclude=True))
            jobs[-1].known = k
    order = list(range(len(jobs)))
    rnd.shuffle(order)
    # long main jobs first inside the random order
    jobs = [jobs[i] for i in order]
    jobs.sort(key=lambda j: 0 if j.kind == 'main' else 1)

    done = [0]

    def progress(j):
        done[0] += 1
        r = j.result
        if verbose and (j.kind in ('main',) or r.get('status') in ('error', 'timeout')):
            print('  [%d/%d] %-6s %-28s %s -> %s paths=%s conf=%s %.1fs' % (
                done[0], len(jobs), j.kind, j.cond.fn, _short(j.shard, 60), r.get('status'),
                r.get('paths'), r.get('confirmed_paths'), r.get('wall_s', 0)), flush=True)

    run_pool(jobs, workdir, progress)

    # ---------------------------------------------------------------- second round: replays
    replays = []
    for j in jobs:
        r = j.result
        if j.kind in ('main', 'twin', 'canary') and r.get('status') == 'refuted' \
                and r.get('counterexample') and '__capture_error__' not in r['counterexample']:
            rj = Job('twinreplay' if j.kind == 'twin' else 'replay', modname, j.cond, j.shard,
                     canary=j.canary, args=r['counterexample'])
            rj.parent = j
            replays.append(rj)
    run_pool(replays, workdir)

    violations = []
    spurious = []
    errors = []
    conds_ev = {}
    functions = set()
    samples = []
    totals = {'paths': 0, 'confirmed_paths': 0, 'verdict_paths': 0, 'solver_queries': 0,
              'solver_s': 0.0, 'shards': 0, 'shards_timed_out': 0, 'cpu_s': 0.0}
    twins_ev = {'run': 0, 'reached': 0}
    canary_ev = {}
    for cond in plan:
        conds_ev[cond.fn] = {'kind': cond.kind, 'shards': len(cond.shards), 'confirmed': 0,
                             'not_confirmed': 0, 'refuted': 0, 'paths': 0, 'confirmed_paths': 0,
                             'bounds': cond.bounds, 'note': cond.note}
    for rj in replays:
        rr = rj.result
        p = rj.parent
        if rr.get('status') != 'done':
            errors.append('replay failed: %s' % rr.get('error'))
            continue
        functions.update(rr.get('functions', []))
        p.replay = rr
    for j in jobs:
        r = j.result
        st = r.get('status')
        if j.kind == 'main':
            ce = conds_ev[j.cond.fn]
            totals['shards'] += 1
            for k in ('paths', 'confirmed_paths', 'verdict_paths', 'solver_queries'):
                totals[k] += int(r.get(k) or 0)
            totals['solver_s'] += float(r.get('solver_s') or 0)
            totals['cpu_s'] += float(r.get('cpu_s') or 0)
            ce['paths'] += int(r.get('paths') or 0)
            ce['confirmed_paths'] += int(r.get('confirmed_paths') or 0)
            if st == 'confirmed':
                ce['confirmed'] += 1
            elif st == 'refuted':
                rr = getattr(j, 'replay', None)
                if rr is None:
                    errors.append('%s %s: refuted without replayable counterexample: %s' % (
                        j.cond.fn, _short(j.shard), _short(r.get('messages'), 600)))
                    ce['not_confirmed'] += 1
                elif rr['ok']:
                    spurious.append({'fn': j.cond.fn, 'shard': j.shard,
                                     'args': r['counterexample'],
                                     'message': _short(r.get('messages'), 400)})
                    ce['not_confirmed'] += 1
                else:
                    ce['refuted'] += 1
                    violations.append({'fn': j.cond.fn, 'shard': j.shard,
                                       'args': r['counterexample'], 'replay': rr,
                                       'message': _short(r.get('messages'), 600)})
            elif st in ('unknown', 'timeout'):
                ce['not_confirmed'] += 1
                if st == 'timeout':
                    totals['shards_timed_out'] += 1
            elif st == 'pre_unsat':
                ce['not_confirmed'] += 1
                errors.append('%s %s: unable to meet precondition (vacuous shard)' % (
                    j.cond.fn, _short(j.shard)))
            else:
                ce['not_confirmed'] += 1
                errors.append('%s %s: %s' % (j.cond.fn, _short(j.shard),
                                             _short(r.get('error', st), 1500)))
        elif j.kind == 'twin':
            twins_ev['run'] += 1
            rr = getattr(j, 'replay', None)
            if st == 'refuted' and rr is not None:
                twins_ev['reached'] += 1
                if len(samples) < 6:
                    samples.append({'fn': j.cond.fn, 'shard': j.shard,
                                    'args': r['counterexample'], 'holds': rr['ok']})
                if not rr['ok']:
                    violations.append({'fn': j.cond.fn, 'shard': j.shard,
                                       'args': r['counterexample'], 'replay': rr,
                                       'message': 'found by the reachability twin'})
            else:
                errors.append('twin of %s %s did not reach the oracle (%s): harness vacuous? %s' % (
                    j.cond.fn, _short(j.shard), st, _short(r.get('error') or r.get('messages'), 800)))
        elif j.kind == 'canary':
            rr = getattr(j, 'replay', None)
            caught = st == 'refuted' and rr is not None and not rr['ok']
            ev = canary_ev.setdefault(j.canary, {'what': canaries[j.canary].get('what', ''),
                                                 'runs': 0, 'caught': 0})
            ev['runs'] += 1
            ev['caught'] += 1 if caught else 0
            if not caught:
                say('  CANARY-MISSED %s on %s %s (%s)' % (j.canary, j.cond.fn, _short(j.shard), st))
        elif j.kind == 'smoke':
            if st != 'done':
                errors.append('smoke run failed: %s' % _short(r.get('error'), 1500))
            else:
                functions.update(r.get('functions', []))
                if len(samples) < 12:
                    samples.append({'fn': j.cond.fn, 'shard': j.shard, 'args': j.args,
                                    'holds': r['ok'], 'concrete': True})
                if not r['ok']:
                    violations.append({'fn': j.cond.fn, 'shard': j.shard, 'args': j.args,
                                       'replay': r, 'message': 'concrete smoke tuple'})
        elif j.kind == 'known':
            k = j.known
            if st == 'done' and not r['ok']:
                known_lines.append('KNOWN-FINDING: property=%s %s' % (prop, k['what']))
            elif st == 'done':
                say('  note: listed finding %s no longer reproduces' % k['key'])
            else:
                errors.append('known-finding witness failed to run: %s' % _short(r.get('error'), 800))

    # ---------------------------------------------------------------- lemmas (direct z3 queries)
    lemmas_ev = []
    for lem in getattr(mod, 'LEMMAS', []):
        t0 = time.time()
        try:
            lr = lem(tier)
        except Exception as e:  # noqa
            import traceback
            lr = {'name': getattr(lem, '__name__', 'lemma'), 'status': 'error',
                  'detail': traceback.format_exc()[-1500:]}
        lr['wall_s'] = round(time.time() - t0, 3)
        lemmas_ev.append(lr)
        say('  lemma %-24s %s queries=%s solver_s=%s %s' % (
            lr.get('name'), lr.get('status'), lr.get('queries'), lr.get('solver_s'),
            _short(lr.get('detail', ''), 200)))
        totals['solver_queries'] += int(lr.get('queries') or 0)
        totals['solver_s'] += float(lr.get('solver_s') or 0)
        if lr['status'] == 'violated':
            key = lr.get('known_key')
            if key and rt.finding_listed(key):
                known_lines.append('KNOWN-FINDING: property=%s %s' % (prop, lr.get('what', key)))
            else:
                violations.append({'fn': lr['name'], 'shard': {}, 'args': lr.get('witness'),
                                   'replay': {'ok': False, 'notes': [lr.get('detail', '')]},
                                   'message': 'lemma violated', 'lemma': True})
        elif lr['status'] == 'error':
            errors.append('lemma %s: %s' % (lr.get('name'), lr.get('detail')))

    # ---------------------------------------------------------------- report
    os.makedirs(os.path.join(ROOT, 'replays'), exist_ok=True)
    vlines = []
    seen = set()
    for v in violations:
        h = hashlib.sha1(json.dumps([v['fn'], v['shard'], v['args']], sort_keys=True,
                                    default=str).encode()).hexdigest()[:10]
        if h in seen:
            continue
        seen.add(h)
        path = os.path.join(ROOT, 'replays', '%s_%s_%s.json' % (prop, v['fn'], h))
        with open(path, 'w') as f:
            json.dump({'property': prop, 'module': modname, 'fn': v['fn'], 'shard': v['shard'],
                       'args': v['args'], 'message': v['message'], 'tier': tier,
                       'lemma': v.get('lemma', False),
                       'observed': {'notes': v['replay'].get('notes'),
                                    'exception': v['replay'].get('exception')}}, f, indent=1,
                      default=str)
        vlines.append('VIOLATION property=%s replay=%s' % (prop, path))

    all_confirm = all(ce['not_confirmed'] == 0 and ce['refuted'] == 0
                      for ce in conds_ev.values() if ce['kind'] == 'confirm')
    lem_ok = all(l['status'] in ('holds', 'not_applicable') for l in lemmas_ev)
    exhaustive = bool(all_confirm and lem_ok and not errors and not vlines
                      and any(ce['kind'] == 'confirm' for ce in conds_ev.values()))
    wall = time.time() - t_start
    declared = list(getattr(mod, 'FUNCTIONS', []))
    explanation = (
        'Bounded symbolic execution of the real circus code from /repo with CrossHair 0.0.110 / z3: '
        'each condition is a harness function whose arguments (inputs, schedule, fault points) are '
        'symbolic; the verdict per shard is "confirmed over all paths" (every feasible path within '
        'the stated bounds executed, solver proved no other exists), a counterexample (replayed '
        'concretely before being reported) or "not confirmed within budget". %d shard(s), %d path(s) '
        'decided, %d confirmed path(s), %d solver queries, %.1f s in the solver. Conditions of kind '
        '"hunt" are bounded bug hunting and never count as exhausted. ' % (
            totals['shards'], totals['paths'], totals['confirmed_paths'], totals['solver_queries'],
            totals['solver_s'])) + getattr(mod, 'EXPLANATION', '')
    ev = {
        'property_id': prop, 'tier': tier, 'seed': seed, 'level': 'other',
        'coverage': {
            'explanation': explanation,
            'evaluations': totals['paths'] + sum(int(l.get('queries') or 0) for l in lemmas_ev),
            'distinct_nontrivial': totals['verdict_paths'] + sum(int(l.get('queries') or 0) for l in lemmas_ev),
            'rule': 'one evaluation = one execution path decided by CrossHair (a distinct sequence of '
                    'solver decisions, hence distinct) or one lemma query; non-trivial = the path '
                    'satisfied the harness bounds and reached the oracle (counted by vtlib.rt.verdict), '
                    'or the query was discharged by the solver',
            'samples': samples or [{'note': 'no twin / smoke sample available'}],
            'exhaustive': exhaustive,
            'conditions': conds_ev,
            'functions_encoded_declared': declared,
            'functions_entered_measured': sorted(functions),
            'solver': {'engine': 'crosshair-tool 0.0.110 + z3 (python wheel)', 'queries': totals['solver_queries'],
                       'solver_s': round(totals['solver_s'], 2), 'cpu_s': round(totals['cpu_s'], 1)},
            'shards': totals['shards'], 'shards_timed_out': totals['shards_timed_out'],
            'twins': twins_ev, 'canaries': canary_ev, 'spurious_counterexamples': spurious,
            'lemmas': lemmas_ev, 'known_findings_reported': known_lines,
            'harness_errors': errors[:20],
        },
        'assumptions': list(getattr(mod, 'ASSUMPTIONS', [])),
        'wall_s': round(wall, 2),
        'violations': len(vlines),
    }
    os.makedirs(os.path.join(ROOT, 'evidence'), exist_ok=True)
    with open(os.path.join(ROOT, 'evidence', '%s.json' % prop), 'w') as f:
        json.dump(ev, f, indent=1, default=str)

    for ce_name, ce in conds_ev.items():
        say('  cond %-28s %-7s shards=%d confirmed=%d not_confirmed=%d refuted=%d paths=%d' % (
            ce_name, ce['kind'], ce['shards'], ce['confirmed'], ce['not_confirmed'], ce['refuted'],
            ce['paths']))
    say('  twins reached %d/%d; canaries %s; spurious %d; solver queries %d (%.1fs); wall %.1fs' % (
        twins_ev['reached'], twins_ev['run'],
        {k: '%d/%d' % (v['caught'], v['runs']) for k, v in canary_ev.items()}, len(spurious),
        totals['solver_queries'], totals['solver_s'], wall))
    for e in errors[:6]:
        say('  HARNESS-ERROR', e)
    if len(errors) > 6:
        say('  ... %d more harness errors' % (len(errors) - 6))
    for line in known_lines:
        print(line, flush=True)
    for line in vlines:
        print(line, flush=True)
    shutil.rmtree(workdir, ignore_errors=True)
    if vlines:
        return 1
    if errors:
        return 3
    say('OK %s: %s' % (prop, 'all confirm-conditions exhausted' if exhaustive else
                       'no violation found; not everything exhausted (see evidence)'))
    return 0


def replay_file(path):
    with open(path) as f:
        rp = json.load(f)
    if rp.get('lemma'):
        print('lemma witness:', rp.get('args'))
        print('observed:', rp.get('observed'))
        return 1
    out = tempfile.mktemp(suffix='.json')
    cmd = [PY, '-m', 'vtlib.replay', '--module', rp['module'], '--fn', rp['fn'], '--shard',
           json.dumps(rp['shard']), '--args', json.dumps(rp['args']), '--out', out]
    env = dict(os.environ, PYTHONPATH=_pypath(), CIRCUS_VERIF='1')
    subprocess.call(cmd, cwd=ROOT, env=env)
    with open(out) as f:
        res = json.load(f)
    os.unlink(out)
    print('replay of %s.%s shard=%s' % (rp['module'], rp['fn'], rp['shard']))
    print('args:', rp['args'])
    for n in res.get('notes', []):
        print('  |', n)
    if res.get('exception'):
        print(res['exception'])
    if res.get('status') != 'done':
        print(res.get('error'))
        return 3
    print('property holds on this input' if res['ok'] else 'PROPERTY VIOLATED on this input')
    return 0 if res['ok'] else 1
