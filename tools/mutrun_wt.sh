#!/bin/bash
# usage: tools/mutrun_wt.sh <patch.diff> <ID> <label> [tier]
# Like tools/mutrun.sh but leaves /repo alone, so several seeded changes can be run at once: the change is applied in a scratch
# worktree of /repo's HEAD, the machinery runs from a scratch copy of /verif (sharing its .venv) with PYTHONPATH pointing at the
# worktree (PYTHONPATH precedes the .pth entry that names /repo).  Both scratch directories are removed afterwards.
patch="$(readlink -f "$1")"; id="$2"; label="$3"; tier="${4:-quick}"
wt="/tmp/mw_$label"; vc="/tmp/vtc_$label"
git -C /repo worktree remove --force "$wt" >/dev/null 2>&1; rm -rf "$vc"
git -C /repo worktree add -q --detach "$wt" HEAD || exit 3
( cd "$wt" && { git apply "$patch" 2>/dev/null || git apply --3way "$patch" 2>/dev/null; } ) || { echo "$id $label patch does not apply"; git -C /repo worktree remove --force "$wt"; exit 3; }
mkdir -p "$vc"; rsync -a --exclude .git --exclude .venv --exclude seeded --exclude findings_demos /verif/ "$vc"/; ln -s /verif/.venv "$vc/.venv"
( cd "$vc" && VT_REPO="$wt" PYTHONPATH="$wt" ./vt check "$id" --tier "$tier" > "$vc/run.log" 2>&1; echo "exit=$?" >> "$vc/run.log" )
echo "$id $label violations: $(grep -c '^VIOLATION' "$vc/run.log") $(grep '^VIOLATION' "$vc/run.log" | head -1 | sed 's#/tmp/vtc_[^/]*#/verif#') $(grep 'HARNESS-ERROR\|CANARY-MISSED' "$vc/run.log" | head -2 | tr '\n' ' ') $(tail -1 "$vc/run.log")"
git -C /repo worktree remove --force "$wt"; rm -rf "$vc"
