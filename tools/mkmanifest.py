#!/usr/bin/env python3
"""Regenerate /verif/MANIFEST.json from the table below (kept in one place so that the
manifest is always valid and in step with the harness modules that exist)."""
import json
import os
import sys

ROOT = os.path.dirname(os.path.dirname(os.path.abspath(__file__)))
sys.path.insert(0, ROOT)

TECH = 'bounded symbolic execution of the real Python code with CrossHair 0.0.110 / z3 (per-path SMT), counterexamples replayed concretely'

# property -> dict(text, note, technique, design_ref) for claimed ones
CLAIMED = {}
NOT_APPLICABLE = {}


def claim(pid, text, note, technique=TECH, design_ref=None):
    CLAIMED[pid] = dict(text=text, note=note, technique=technique,
                        design_ref=design_ref or ('section 3 / %s' % pid))


def na(pid, reason):
    NOT_APPLICABLE[pid] = reason


exec(open(os.path.join(ROOT, 'tools', 'manifest_table.py')).read())


def main():
    ids = ['C%02d' % i for i in range(1, 21)]
    checks = []
    for pid in ids:
        if pid in CLAIMED:
            c = CLAIMED[pid]
            checks.append({
                'property_id': pid,
                'quick_cmd': './vt check %s --tier quick' % pid,
                'thorough_cmd': './vt check %s --tier thorough' % pid,
                'evidence_file': 'evidence/%s.json' % pid,
                'replay_cmd_template': './vt replay {path}',
                'engine': 'crosshair-z3',
                'level_claimed': {'category': 'other', 'text': c['text'], 'design_ref': c['design_ref']},
                'level_note': c['note'],
                'technique': c['technique'],
            })
    m = {
        'version': 1,
        'setup_cmd': './vt setup',
        'hooks': {
            'guard': 'CIRCUS_VERIF',
            'enable': 'no source hooks: the checks monkey-patch the imported circus modules (simulated kernel, '
                      'virtual clock, fake zmq) inside their own processes, where CIRCUS_VERIF=1 is set',
            'baseline_off_cmd': 'cd /repo && /venv/bin/python -m pytest -ra -q -p no:cacheprovider --timeout=900 '
                                '--continue-on-collection-errors',
            'source_commits': [],
            'add_only': True,
        },
        'engines': [{
            'name': 'crosshair-z3',
            'path': 'vtlib/',
            'serves_properties': [c['property_id'] for c in checks],
            'kind_free_text': 'CrossHair 0.0.110 symbolic execution (z3 5.1) of harness functions that run the real circus '
                              'code from /repo on a simulated world; direct z3 lemmas generated from the source AST where '
                              'path-wise execution is too weak',
        }],
        'checks': checks,
        'not_applicable': [{'property_id': p, 'reason': NOT_APPLICABLE[p]} for p in ids if p in NOT_APPLICABLE],
        'notes': 'All checks: ./vt check <ID> --tier quick|thorough. Exit 0 = held on everything explored (KNOWN-FINDING '
                 'lines for listed findings), 1 = replayed violation, 3 = machinery failure. See DESIGN.md.',
    }
    missing = [p for p in ids if p not in CLAIMED and p not in NOT_APPLICABLE]
    assert not missing, missing
    with open(os.path.join(ROOT, 'MANIFEST.json'), 'w') as f:
        json.dump(m, f, indent=1)
    print('MANIFEST.json: %d claimed, %d not applicable' % (len(checks), len(m['not_applicable'])))


if __name__ == '__main__':
    main()
