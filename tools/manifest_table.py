# executed by tools/mkmanifest.py: claim(id, text, note[, technique]) / na(id, reason)
WIP = 'check not built yet in this revision (work in progress; see DESIGN.md section 3 for the plan)'

claim('C20',
      'Bounded symbolic execution of the real FileStream code on a fake file system: max_bytes and every write length are '
      'unbounded solver integers, backup_count in [1,3], 3-5 writes from an empty directory (c20_rotate) plus ONE inductive '
      'step from an arbitrary invariant-satisfying directory with pre-existing backups (c20_step), so histories of any length '
      'are covered if the invariant is right; rotation with a time_format for every max_bytes (c20_timed_rotate), UTF-8 byte accounting on multi-byte '
      'text (c20_bytes), 8-12 backups with a rollover per write (c20_deep); prefix (two pids) and append-only conditions over all short strings. CrossHair reports '
      '"confirmed over all paths" per condition; seeded canaries (>= to >, broken shift loop, prefix on first line only) are refuted.',
      'Trusted: the fake file system (append, rename-replaces, remove) and CrossHair/z3 themselves; sizes counted in characters '
      '(ASCII) except in c20_bytes. Outside: undecodable bytes, real disk errors, TimedRotatingFileStream/WatchedFileStream.')

WORLD_NOTE = ('Trusted: the simulated world (vtlib/world: process table with signals / waitpid / re-parenting, virtual clock and '
              'event-loop selector, fake zmq, FakePopen honouring the psutil-7 / subprocess contract) and CrossHair/z3. pid reuse, real '
              'kernel timing and zmq failures are outside the claim. ')

claim('C01',
      'Bounded symbolic execution of the real Watcher/Arbiter/Controller code on a simulated kernel: (a) every history of K<=2 events '
      'from an 11-event menu (exit, external kill, incr/decr/set with solver-chosen integer parameters, restart, three reload modes, '
      'periodic check, time) with 4 placements each and one worker death injected at any kernel call; (b) an inductive step from an '
      'arbitrary quiescent watcher state (<=3 table entries alive/zombie/gone, any target) through three real periodic checks. Oracle on '
      'kernel ground truth: live = table = list reply = numprocesses, no zombie, fixpoint, post-restart generations. Configuration variants '
      '(graceful_timeout 0 with stubborn workers, send_hup, max_age, stop_children), a signal delivery that fails once with EPERM, and a higher-priority '
      'neighbour watcher whose management raises on every check, a wrapped pid counter (later processes get smaller pids), max_age with a variance, '
      'and the death of the NEWEST process (a worker of the new generation during its own roll-out). CrossHair exhausts each shard.',
      WORLD_NOTE + 'Bounds: numprocesses <= 3, K <= 2 from boot (longer histories only through the inductive step), respawn=True, no on_demand.')
claim('C02',
      'Bounded symbolic execution of stop / restart / rm / quit (through the real Controller) with obedient, slow, too-slow and stubborn '
      'workers, issued at quiescence or while a non-exclusive kill request is in flight, with one SIGKILL death injected at every kernel call '
      'of the stop sequence, followed by K<=2 follow-up events (check, incr, decr, set numprocesses, set of reload-class options, kill, signal) '
      'on the stopped watcher; variants graceful_timeout 0, max_age, an on_demand watcher stopped during its background start / after one worker died / in '
      'the pause before a second on_demand watcher, and a stop cut short by EPERM then requested again; c02_socket_event: a connection starts the waiting '
      'on_demand watcher and never a watcher stopped by request; follow-ups that start / restart the OTHER watchers by pattern. Oracle: no live or zombie child, status stopped, numprocesses 0, spawn log unchanged, start still starts.',
      WORLD_NOTE + 'Runs in which the loop is blocked are skipped here (C05).')
claim('C03',
      'Bounded symbolic execution of every termination cause (stop, restart, decr, reload, sequential reload, kill with and without signum / '
      'graceful_timeout overrides, max_age expiry, two overlapping terminations of the same worker, a termination following one that failed with EINVAL / '
      'EPERM, a child exiting at any kernel call of the termination) over a 0.05 s grid of graceful_timeout and '
      'worker reaction delays (on, between, exactly at polling instants and the timeout; stubborn), three stop signals, with children and '
      'grandchildren; oracle on the kernel signal log. Plus a z3 QF_LRA lemma generated from the AST of kill_process: for EVERY real '
      'graceful_timeout <= 60 s (thorough 120 s) the float-accumulating wait loop escalates neither early nor more than one polling step late.',
      WORLD_NOTE + 'Interpretation: "exited in time" is read at polling granularity (see DESIGN.md). before_signal vetoes are C14.',
      technique=TECH + '; z3 QF_LRA lemma over the exact rational partial sums of the float wait loop')
claim('C18',
      'Signal designations: (i) CrossHair over every class-representative one-character neighbourhood of ~100 real designations and '
      'non-signal names at all four entry points (to_signum, kill, signal, convert_option), exhausted; (ii) free short strings (bug hunting); '
      '(iii) a z3 regular-language inclusion lemma generated from to_signum\'s AST and validated against the real function: accepted == valid '
      'over ASCII strings of ANY length. Confinement of signal/kill requests to the named watcher\'s workers and their descendants: bounded '
      'symbolic execution on the simulated kernel (c18_confinement: pid / childpid / flags, six daemon states incl. a re-parented grandchild after a recursive signal, '
      'stop_children with a child exiting mid-request, designations incl. the null signal 0).',
      WORLD_NOTE + 'ASCII designations only; numeric strings denote whatever int() yields.',
      technique=TECH + '; z3 regular-expression language inclusion (sequence theory) for designations')

claim('C04',
      'Bounded symbolic execution over two watchers: one or two requests from the state-changing commands, scripted before_spawn / after_spawn '
      'outcomes, an exec failure at the n-th attempt, obedient and stubborn workers and one death injected at any kernel call; plus an inductive '
      'step from an arbitrary quiescent watcher state for every event kind. Oracle on kernel ground truth: list / numprocesses / stats / status of '
      'each watcher = its live children, every pid ever spawned is tracked by exactly one watcher or gone, no zombie after one check, no transient '
      'status; also evaluated at the first quiescent point before any periodic check. Exec failures are ENOENT or a SubprocessError from the child\'s '
      'pre-exec step; graceful_timeout 0 with stubborn workers; a daemon that blocks outside the listed finding\'s region is a violation.',
      WORLD_NOTE + 'One listed known finding (after_spawn veto leaves a not-yet-dead worker untracked).')
claim('C05',
      'Bounded symbolic execution of pairs of events (exclusive operations, overlapping non-exclusive kill / signal requests, deaths, set of '
      'reload-class options) with stubborn, slow and obedient workers, graceful_timeout 0.3 s and 0: the virtual clock turns every time.sleep '
      'inside a loop callback into measured blocking (50 ms bound, 5 s watchdog), all eight read-only commands are probed after every event and must be '
      'answered without the loop turning, and every accepted waiting request must be answered within the applicable grace and warm-up delays + 0.5 s.',
      WORLD_NOTE + 'Blocking = time.sleep, fork/exec time (1-5 ms per spawn), a read on an empty pipe, select without a finite timeout, or more than 3000 kernel '
      'calls inside one loop callback. Also: captured output with a helper child holding the pipes and exactly k x 1024 bytes pending; fork failing persistently with EAGAIN; an idle on_demand watcher. '
      'One listed known finding (reap_process busy-wait).')
claim('C06',
      'Bounded symbolic execution of the real Controller and client library: structured byte strings (fringe bytes around 18 JSON cores), JSON '
      'documents assembled from menus for id / command / msg_type / properties over every registered command (real codec), operations that fail after '
      'the immediate path with and without waiting, and CircusClient.call against scripted reply sequences (own / stale / foreign / id-less / duplicate / '
      'garbage, re-sent message dict, a client stall across the deadline on a virtual clock); hook code leaving through SystemExit / KeyboardInterrupt / '
      'GeneratorExit (c06_exit); free short byte strings as bounded bug hunting. Oracle: exactly one two-frame reply with the request id and status '
      'ok/error (none for cast), daemon still serving.',
      WORLD_NOTE + 'AsyncCircusClient is not driven; `status` replies carry the watcher status by documented design.')
claim('C09',
      'Bounded symbolic execution of histories (13-event menu) with a worker death whose WAIT STATUS IS SYMBOLIC (every exit code 0..255, every '
      'signal 1..64 with and without core flag, decoded by arithmetic W* macros proven equal to glibc\'s) placed at any kernel call; the captured '
      'event stream is replayed by an independent subscriber model and compared with kernel ground truth (one spawn per pid before any reap, at most '
      'one reap, believed-alive = alive, reap exit_code = status / -signal, start/stop vs status). Also deaths placed as events before a request, signal '
      'requests (plain / recursive / children / one pid) to workers that survive them, stubborn workers, and send_hup / max_age / on_demand configurations.',
      WORLD_NOTE, technique=TECH + '; z3 bit-vector lemma for the wait-status macros')
claim('C10',
      'Bounded symbolic execution: a first state-changing request (20 kinds incl. the periodic check and non-graceful reloads) that succeeds, raises synchronously or fails '
      'asynchronously after suspension (unexpected exception in a later spawn); a second and third request after g loop turns. Refused requests must be '
      'conflict errors, change nothing (snapshot + kernel logs) and leave the slot to its owner; a watcher in a transient status, or a waiting request still unanswered, while the slot is free is a violation; '
      'c10_decorator: ONE inductive step of util.synchronized from an arbitrary slot state x callee x outcome (return, raise, BaseException, pending / done future); '
      'afterwards the slot is free and incr/decr are accepted. c10_reloadconfig: [circus] edits (in-process restart) failing at the n-th step.',
      WORLD_NOTE + 'Daemon self-restart excluded.')
claim('C11',
      'Bounded symbolic execution over a generated menu of 124 corrupted or conflicting requests (dropped fields, every JSON type per field, unknown '
      'watcher / option / user / signal, out-of-domain values, bad option first / middle / last among good ones, ill-typed values EQUAL to valid ones the daemon '
      'was primed with (real functools.lru_cache), valid requests during a conflict) in '
      'three daemon states; an error reply must leave watchers, all options, statuses, pids, kernel spawn / signal logs, events and the exclusive slot unchanged '
      '(immediately and after settling).',
      WORLD_NOTE + 'One listed known finding (`set` applies options one by one). The solver acts as an enumerator here: all inputs are selectors.')
claim('C12',
      'Bounded symbolic execution of reloadconfig sequences (K<=3 edits from a 21-edit menu incl. reverts, multi-watcher edits, a watcher scaled to 0 and back, a watcher with an upper-case name added and removed at run time, an invalid definition after which '
      'the history continues with convergence alone claimed, and env values that '
      'parse_env_dict rewrites) on a real ini file: after every reload the daemon equals what get_config + Watcher.load_from_config yield for the file, '
      'unchanged watchers keep their pids, numprocesses-only edits keep the surviving workers, an unchanged file causes no kernel activity, removed watchers leave nothing. '
      'One watcher names its stream class explicitly (captured output on fake pipes).',
      WORLD_NOTE + 'The parser runs outside the tracer (concrete input); "fresh start" is judged against the parser, which is C16\'s subject.')
claim('C13',
      'Differential bounded symbolic execution: argv / cwd / env / shell received by the simulated kernel vs an independent scanner of the documented '
      'substitution language + shlex (token menu: both reference syntaxes in any case, values with blanks and quotes, unknown / prefix-less references, '
      'literal $ ( ) quotes backslashes; args none / string / list; shell, copy_env, two env sets); worker ids over event histories; inductive step on '
      '_nextwid for ANY set of used ids in [1,8] and numprocesses in [0,4].',
      WORLD_NOTE + 'POSIX only; $WID (deprecated) excluded.')
claim('C14',
      'Bounded symbolic execution of the hook matrix: start with every assignment of {true,false,raise} x {ignore} to the four start-phase hooks '
      '(quick: at most two non-default; thorough: all 1296), taking effect from the first or second call; stop / restart / signal / kill (8 request forms) '
      'with every assignment to the stop and signal hooks; a second watcher whose hooks all carry the ignore flag; a false / raising before_signal on top of the '
      'start matrix; exceptions with and without a message; obedient and stubborn workers. Oracle: documented gating rules, SIGKILL exemption, one '
      'hook_success/hook_failure event per call.',
      WORLD_NOTE + 'Shares the listed finding of C04 (vetoed worker that ignores the stop signal).')
claim('C15',
      'Bounded symbolic execution of add / add+start / rm / rm nostop / start / stop sequences (K<=3, thorough 4) over a name pool with case variants, the '
      'empty name, blanks and non-ASCII, and of reloadconfig edit sequences; after every reply list = status = stats = numwatchers = internal index, '
      'case variants reach the same watcher, removed watchers are gone (workers dead unless nostop) and re-addable, add ok => listed.',
      WORLD_NOTE)
claim('C19',
      'Bounded symbolic execution with UNBOUNDED symbolic integer priorities (ties included) for three watchers, numprocesses and warm-up menus, autostart '
      'flags, five triggers (daemon start, start/restart all, start/restart by glob), a slow after_spawn hook, periodic checks landing inside the sequence and an '
      'injected death of the oldest / newest worker inside the sequence; oracle on the kernel spawn log (priority blocks, no interleaving, per-watcher and global pacing also '
      'for the replacement spawned in the aftermath, autostart); an after_spawn hook that rejects the first-started watcher\'s worker.',
      WORLD_NOTE)

claim('C07',
      'Daemon-side half only. Bounded symbolic execution with REAL CircusSocket objects (unix + inet, so_reuseport) whose bind / listen / close calls are '
      'counted: eight watcher variants (reference in cmd / args / upper case / both syntaxes / two sockets / no use_sockets / stdin_socket only / reuseport) x '
      'K<=2 of 12 events (incl. `set cmd` to another socket) over worker generations; per spawn the argv given to Popen carries the fileno of THE daemon socket, the descriptor is reachable '
      '(close_fds False or listed in pass_fds, inheritable), sockets keep their fd, are bound and listening exactly once and never closed; watchers '
      'without use_sockets get close_fds=True. c07_reloadconfig: a daemon started from a real ini file keeps its sockets (objects, descriptors, one bind, no close) across '
      'reloadconfig requests that leave the socket sections alone.',
      WORLD_NOTE + 'Trusted, not checked: that a real child finds the socket at that descriptor (POSIX close_fds / inheritable semantics).')
claim('C08',
      'Daemon-side half only. Bounded symbolic execution of the REAL circusd.main() (argument parsing, pid file, Arbiter.load_from_config, the '
      'blocking loop.start() on the virtual-time loop, finally-block) with real managed sockets and pid file: trigger {quit, quit waiting, SIGTERM, '
      'SIGINT, SIGQUIT} delivered 1-3 times at any kernel call or right after a request (incr, restart, reload, kill, reloadconfig adding a socket / replacing a watcher / moving a managed unix socket to another path, '
      'a connection for an on_demand watcher, the death of one of its workers) or INSIDE select() of an idle daemon (also without periodic check), obedient / stubborn workers: '
      'exit 0, no child left, zmq and managed sockets closed (also those bound before a reloadconfig), unix socket files and pid file gone, bounded time. Pid-file protocol over structured '
      'contents (also non-UTF-8 bytes) x liveness {own, live, dead, EPERM}.',
      WORLD_NOTE + 'Signals are delivered by calling the real handler; real signal delivery, the exit status seen by a parent and daemonize() are '
      'outside. One listed known finding (signal dropped while an operation is in flight).')
claim('C16',
      'Differential check of config.get_config against a model-level reader over a generator of ini files (presence and every order of [env], '
      '[env:w1], [env:w*], [env:LIST] sections defining the same variable, recurring patterns, copy_env, references in five places and three syntaxes, '
      '[env] values and include paths referring to os.environ, empty values, the second watcher referring to a variable private to the first, five groups of typed options, an included file). The solver enumerates the generator '
      'exhaustively through selector variables; the parser itself runs on concrete text.',
      'Weakest use of the technique here (stated in DESIGN.md): symbolic text cannot pass configparser soundly under CrossHair, so nothing is ranged. '
      'Outside: ini syntax beyond the generated grammar.',
      technique='CrossHair/z3 path enumeration over selector variables driving a differential oracle (no symbolic text)')
claim('C17',
      'Daemon-side half only. Bounded symbolic execution of the real Redirector on fake pipes with a lowest-free fd allocator: two workers (optionally '
      'with a helper child keeping the pipes open), stdout+stderr captured, K<=3 (thorough 4) events from {write n bytes around the 1024-byte buffer, '
      'loop turns, close a pipe, death + respawn, sibling killed by request, an asynchronous kill racing the respawn, a run-time swap of the stream}; per (pid, channel) the delivered bytes equal the written bytes (order, once, '
      'label), a blocking read is a violation, EOF is read once per pipe, no fd of a dead worker stays open or tracked.',
      WORLD_NOTE + 'Trusted: real pipe / epoll semantics. Output still unread when a worker is killed is not claimed.')
