# executed by tools/mkmanifest.py: claim(id, text, note[, technique]) / na(id, reason)
WIP = 'check not built yet in this revision (work in progress; see DESIGN.md section 3 for the plan)'

claim('C20',
      'Bounded symbolic execution of the real FileStream code on a fake file system: max_bytes and every write length are '
      'unbounded solver integers, backup_count in [1,3], 3-5 writes from an empty directory (c20_rotate) plus ONE inductive '
      'step from an arbitrary invariant-satisfying directory with pre-existing backups (c20_step), so histories of any length '
      'are covered if the invariant is right; prefix and append-only conditions over all short strings. CrossHair reports '
      '"confirmed over all paths" per condition; seeded canaries (>= to >, broken shift loop, prefix on first line only) are refuted.',
      'Trusted: the fake file system (append, rename-replaces, remove) and CrossHair/z3 themselves; sizes counted in characters '
      '(ASCII). Outside: more than 3 backups, multi-byte text, real disk errors, TimedRotatingFileStream/WatchedFileStream.')

WORLD_NOTE = ('Trusted: the simulated world (vtlib/world: process table with signals / waitpid / re-parenting, virtual clock and '
              'event-loop selector, fake zmq, FakePopen honouring the psutil-7 / subprocess contract) and CrossHair/z3. pid reuse, real '
              'kernel timing and zmq failures are outside the claim. ')

claim('C01',
      'Bounded symbolic execution of the real Watcher/Arbiter/Controller code on a simulated kernel: (a) every history of K<=2 events '
      'from an 11-event menu (exit, external kill, incr/decr/set with solver-chosen integer parameters, restart, three reload modes, '
      'periodic check, time) with 4 placements each and one worker death injected at any kernel call; (b) an inductive step from an '
      'arbitrary quiescent watcher state (<=3 table entries alive/zombie/gone, any target) through three real periodic checks. Oracle on '
      'kernel ground truth: live = table = list reply = numprocesses, no zombie, fixpoint, post-restart generations. CrossHair exhausts each shard.',
      WORLD_NOTE + 'Bounds: numprocesses <= 3, K <= 2 from boot (longer histories only through the inductive step), respawn=True, no max_age/on_demand.')
claim('C02',
      'Bounded symbolic execution of stop / restart / rm / quit (through the real Controller) with obedient, slow, too-slow and stubborn '
      'workers, issued at quiescence or while a non-exclusive kill request is in flight, with one SIGKILL death injected at every kernel call '
      'of the stop sequence, followed by K<=2 follow-up events (check, incr, decr, set numprocesses, set of reload-class options, kill, signal) '
      'on the stopped watcher. Oracle: no live or zombie child, status stopped, numprocesses 0, spawn log unchanged, start still starts.',
      WORLD_NOTE + 'Runs in which the loop is blocked are skipped here (C05).')
claim('C03',
      'Bounded symbolic execution of every termination cause (stop, restart, decr, reload, sequential reload, kill with and without signum / '
      'graceful_timeout overrides, max_age expiry, and two overlapping terminations of the same worker) over a 0.05 s grid of graceful_timeout and '
      'worker reaction delays (on, between, exactly at polling instants and the timeout; stubborn), three stop signals, with children and '
      'grandchildren; oracle on the kernel signal log. Plus a z3 QF_LRA lemma generated from the AST of kill_process: for EVERY real '
      'graceful_timeout <= 60 s (thorough 120 s) the float-accumulating wait loop escalates neither early nor more than one polling step late.',
      WORLD_NOTE + 'Interpretation: "exited in time" is read at polling granularity (see DESIGN.md). before_signal vetoes are C14.',
      technique=TECH + '; z3 QF_LRA lemma over the exact rational partial sums of the float wait loop')
claim('C18',
      'Signal designations: (i) CrossHair over every class-representative one-character neighbourhood of ~100 real designations and '
      'non-signal names at all four entry points (to_signum, kill, signal, convert_option), exhausted; (ii) free short strings (bug hunting); '
      '(iii) a z3 regular-language inclusion lemma generated from to_signum\'s AST and validated against the real function: accepted == valid '
      'over ASCII strings of ANY length. Confinement of signal/kill requests to the named watcher\'s workers and their descendants: bounded '
      'symbolic execution on the simulated kernel (c18_confinement).',
      WORLD_NOTE + 'ASCII designations only; numeric strings denote whatever int() yields.',
      technique=TECH + '; z3 regular-expression language inclusion (sequence theory) for designations')

for _p in ['C04', 'C05', 'C06', 'C07', 'C08', 'C09', 'C10', 'C11', 'C12', 'C13', 'C14', 'C15',
           'C16', 'C17', 'C19']:
    na(_p, WIP)
