# executed by tools/mkmanifest.py: claim(id, text, note[, technique]) / na(id, reason)
WIP = 'check not built yet in this revision (work in progress; see DESIGN.md section 3 for the plan)'

claim('C20',
      'Bounded symbolic execution of the real FileStream code on a fake file system: max_bytes and every write length are '
      'unbounded solver integers, backup_count in [1,3], 3-5 writes from an empty directory (c20_rotate) plus ONE inductive '
      'step from an arbitrary invariant-satisfying directory with pre-existing backups (c20_step), so histories of any length '
      'are covered if the invariant is right; prefix and append-only conditions over all short strings. CrossHair reports '
      '"confirmed over all paths" per condition; seeded canaries (>= to >, broken shift loop, prefix on first line only) are refuted.',
      'Trusted: the fake file system (append, rename-replaces, remove) and CrossHair/z3 themselves; sizes counted in characters '
      '(ASCII). Outside: more than 3 backups, multi-byte text, real disk errors, TimedRotatingFileStream/WatchedFileStream.')

for _p in ['C01', 'C02', 'C03', 'C04', 'C05', 'C06', 'C07', 'C08', 'C09', 'C10', 'C11', 'C12', 'C13', 'C14', 'C15',
           'C16', 'C17', 'C18', 'C19']:
    na(_p, WIP)
