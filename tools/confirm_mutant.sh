#!/bin/bash
# Confirm one seeded change in a scratch worktree of /repo's HEAD (outside /repo and /verif):
#   patch applies, demo passes without it and fails with it, the pinned test suite still passes with it.
# usage: tools/confirm_mutant.sh <srcdir-with-patch.diff-and-demo.py> <label>
# writes <srcdir>/confirm.json ; removes the worktree afterwards.
src="$1"; label="$2"
# the suite binds fixed tcp ports (5555/5556): run inside a private network namespace when possible, so that several
# confirmations (and anything else on the machine) cannot disturb each other
if [ -z "$CM_ISOLATED" ] && unshare -n true 2>/dev/null; then
  exec env CM_ISOLATED=1 unshare -n bash -c 'ip link set lo up 2>/dev/null; exec "$0" "$@"' "$0" "$@"
fi
wt="/tmp/cm_$label"
git -C /repo worktree remove --force "$wt" >/dev/null 2>&1
git -C /repo worktree add -q --detach "$wt" HEAD || exit 3
cd "$wt" || exit 3
export PYTHONPATH="$wt"
demo_cmd() { if grep -q "^def test_\|^class Test\|import pytest" "$src/demo.py" && ! grep -q "__main__" "$src/demo.py"; then
    timeout 300 /venv/bin/python -m pytest -q -p no:cacheprovider "$src/demo.py"; else timeout 300 /venv/bin/python "$src/demo.py"; fi; }
demo_cmd > "$src/demo_clean.log" 2>&1; rc_clean=$?
applies=yes
git apply "$src/patch.diff" 2>/dev/null || git apply --3way "$src/patch.diff" 2>/dev/null || applies=no
rc_mut=-1; tests="not run"
if [ $applies = yes ]; then
  demo_cmd > "$src/demo_mutant.log" 2>&1; rc_mut=$?
  timeout 1500 /venv/bin/python -m pytest -q -p no:cacheprovider -p no:hypothesispytest --timeout=900 tests > "$src/suite_confirm.log" 2>&1
  tests=$(grep -E "^[0-9]+ (passed|failed)|passed|failed" "$src/suite_confirm.log" | tail -1)
  failed=$(grep -E "^FAILED|^ERROR" "$src/suite_confirm.log" | grep -v "test_streams\|test_max_age" | head -5 | tr '\n' ';')
fi
cat > "$src/confirm.json" <<EOF
{"label": "$label", "applies": "$applies", "demo_rc_clean": $rc_clean, "demo_rc_mutant": $rc_mut, "suite": "$tests", "unexpected_failures": "$failed", "head": "$(git -C /repo rev-parse --short HEAD)"}
EOF
cd /
git -C /repo worktree remove --force "$wt"
cat "$src/confirm.json"
