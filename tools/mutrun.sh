#!/bin/bash
# usage: tools/mutrun.sh <patch.diff> <ID> [tier]   -- apply a seeded change to /repo, run the check, undo.
patch="$(readlink -f "$1")"; id="$2"; tier="${3:-quick}"
cd /verif
if ! git -C /repo diff --quiet; then echo "/repo has local modifications" >&2; exit 3; fi
git -C /repo apply "$patch" 2>/dev/null || git -C /repo apply --3way "$patch" 2>/dev/null || { git -C /repo reset -q --hard HEAD; echo "patch does not apply"; exit 3; }
./vt check "$id" --tier "$tier" > /tmp/mutrun_$$.log 2>&1; rc=$?
git -C /repo reset -q --hard HEAD
grep -c "^VIOLATION" /tmp/mutrun_$$.log | sed "s/^/violations: /"
grep "^VIOLATION" /tmp/mutrun_$$.log | head -2
grep "HARNESS-ERROR\|CANARY-MISSED" /tmp/mutrun_$$.log | head -3
echo "exit=$rc"; rm -f /tmp/mutrun_$$.log /verif/replays/*.json
