#!/usr/bin/env python3
"""Import confirmed seeded changes (written by independent sub-agents into a scratch directory) into /verif/seeded/.

usage: tools/seeded_import.py <srcroot> <round-label> <detect-log> [<detect-log> ...]

<srcroot>/<ID>/<m>/ holds patch.diff, demo.py, NOTES.md and confirm.json (written by tools/confirm_mutant.sh: the patch applies,
the demonstration passes without and fails with the change, the pinned suite still passes with it).  A detect log has lines
"<ID> <m> ... violations: N ..." (tools/mutrun.sh output); later logs override earlier ones.  Only confirmed changes are imported.
"""
import json
import os
import re
import shutil
import sys

KNOWN_UNSTABLE = ('test_streams',)


def needs_paragraph(notes):
    lines = notes.splitlines()
    out, on = [], False
    for ln in lines:
        if re.search(r'(?i)need(ed|s)?( for it)? to manifest|what is needed', ln) and ln.lstrip().startswith('#'):
            on = True
            continue
        if on:
            if ln.lstrip().startswith('#'):
                break
            out.append(ln.strip())
    text = ' '.join(x for x in out if x)
    return text[:700]


def read_logs(paths):
    out = {}
    for path in paths:
        for ln in open(path):
            m = re.match(r'^(C\d\d) (m\d)\b(.*)$', ln.strip())
            if not m:
                continue
            n = re.search(r'violations: (\d+)', m.group(3))
            fn = re.search(r'replay=/verif/replays/C\d\d_([a-z0-9_]+?)_[0-9a-f]{10}\.json', m.group(3))
            if n:
                out[(m.group(1), m.group(2))] = {'quick_check_violations': int(n.group(1)), 'condition': fn.group(1) if fn else None}
    return out


def main():
    """usage: seeded_import.py <srcroot> <label> --first LOG [--wrong-reason ID:m,...] --final LOG [LOG ...]"""
    src, label = sys.argv[1], sys.argv[2]
    rest = sys.argv[3:]
    first_logs, final_logs, wrong = [], [], set()
    mode = None
    for a in rest:
        if a in ('--first', '--final', '--wrong-reason'):
            mode = a
        elif mode == '--first':
            first_logs.append(a)
        elif mode == '--final':
            final_logs.append(a)
        elif mode == '--wrong-reason':
            wrong.update(tuple(x.split(':')) for x in a.split(','))
    first = read_logs(first_logs)
    detect = dict(first)
    detect.update(read_logs(final_logs))
    done = []
    for pid in sorted(os.listdir(src)):
        for m in sorted(os.listdir(os.path.join(src, pid))):
            d = os.path.join(src, pid, m)
            if not os.path.isdir(d) or not os.path.exists(os.path.join(d, 'confirm.json')):
                continue
            conf = json.load(open(os.path.join(d, 'confirm.json')))
            unexpected = [x for x in (conf.get('unexpected_failures') or '').split(';') if x.strip() and not any(u in x for u in KNOWN_UNSTABLE)]
            if conf.get('applies') != 'yes' or conf.get('demo_rc_clean') != 0 or conf.get('demo_rc_mutant') in (0, None) or unexpected or \
                    not conf.get('suite'):
                print('NOT imported (not confirmed): %s %s %r' % (pid, m, {k: conf.get(k) for k in ('applies', 'demo_rc_clean', 'demo_rc_mutant', 'suite')}))
                continue
            key = '%s_%s%s' % (pid, label, m)
            dst = os.path.join('/verif/seeded', key)
            os.makedirs(dst, exist_ok=True)
            for f in ('patch.diff', 'demo.py', 'NOTES.md'):
                if os.path.exists(os.path.join(d, f)):
                    shutil.copy(os.path.join(d, f), os.path.join(dst, f))
            ported = os.path.exists(os.path.join(d, 'patch_ported.diff'))
            if ported:
                # re-based onto a later fix: the re-based patch is the one that applies to /repo's HEAD
                shutil.copy(os.path.join(d, 'patch.diff'), os.path.join(dst, 'patch_original.diff'))
                shutil.copy(os.path.join(d, 'patch_ported.diff'), os.path.join(dst, 'patch.diff'))
            notes = open(os.path.join(d, 'NOTES.md')).read() if os.path.exists(os.path.join(d, 'NOTES.md')) else ''
            title = notes.splitlines()[0].lstrip('# ').strip() if notes else ''
            title = re.sub(r'^C\d\d\s*/\s*(change\s*\d|m\d)\s*(—|--|-)\s*', '', title)
            det = detect.get((pid, m))
            f = first.get((pid, m))
            first_run = None
            if f is not None:
                first_run = {'caught': f['quick_check_violations'] > 0 and (pid, m) not in wrong, 'condition': f['condition']}
                if (pid, m) in wrong:
                    first_run['note'] = 'flagged through an incomplete stub (the change calls a function the fake file system lacked): not counted'
            meta = {'property': pid, 'round': label, 'change': title, 'needs_to_manifest': needs_paragraph(notes),
                    'author': 'independent sub-agent given only the property text and its own scratch worktree',
                    'confirmed': {'by': 'tools/confirm_mutant.sh in a scratch worktree of /repo', 'at_repo_head': conf.get('head'),
                                  'patch_applies': conf.get('applies'), 'demo_exit_without_change': conf.get('demo_rc_clean'),
                                  'demo_exit_with_change': conf.get('demo_rc_mutant'), 'pinned_suite_with_change': conf.get('suite'),
                                  'unexpected_failures': conf.get('unexpected_failures')},
                    'ported': ported, 'first_run': first_run, 'quick_check': det}
            json.dump(meta, open(os.path.join(dst, 'meta.json'), 'w'), indent=1)
            done.append(key)
    print('imported %d: %s' % (len(done), ' '.join(done)))


if __name__ == '__main__':
    main()
