"""FileStream with time_format: the active file must stay below max_bytes (each written line is far smaller than it)."""
import os, sys, tempfile
from circus.stream import FileStream
d = tempfile.mkdtemp()
path = os.path.join(d, 'app.log')
st = FileStream(filename=path, max_bytes=60, backup_count=2, time_format='%H:%M:%S')
worst = 0
for i in range(12):
    st({'data': b'x\n', 'pid': 4321, 'name': 'stdout'})
    worst = max(worst, os.path.getsize(path))
st.close()
print('largest active file: %d bytes, max_bytes 60 (each line is 19 bytes)' % worst)
sys.exit(0 if worst < 60 else 1)
