"""A worker whose pre-exec step fails (impossible rlimit): the watcher must not stay 'starting' for ever."""
import os, sys, tempfile, time, subprocess, socket
from circus.client import CircusClient
tmp = tempfile.mkdtemp()
def port():
    s = socket.socket(); s.bind(('127.0.0.1', 0)); p = s.getsockname()[1]; s.close(); return p
ep, pub = port(), port()
ini = os.path.join(tmp, 'c.ini')
open(ini, 'w').write("""[circus]
check_delay = 1
endpoint = tcp://127.0.0.1:%d
pubsub_endpoint = tcp://127.0.0.1:%d

[watcher:ok]
cmd = sleep 600

[watcher:bad]
cmd = sleep 600
autostart = False
rlimit_nofile = 4611686018427387904
""" % (ep, pub))
d = subprocess.Popen([sys.executable, '-m', 'circus.circusd', ini], stdout=subprocess.DEVNULL, stderr=subprocess.DEVNULL)
c = CircusClient(endpoint='tcp://127.0.0.1:%d' % ep, timeout=10)
def call(cmd, **p):
    return c.call({'command': cmd, 'properties': p})
for _ in range(50):
    try:
        if call('status', name='ok')['status'] == 'active':
            break
    except Exception:
        pass
    time.sleep(0.2)
r = call('start', name='bad', waiting=True)
time.sleep(2.5)
st = call('status', name='bad')['status']
print('start bad ->', r.get('status'), '; status of bad 2.5 s later:', st, '; pids', call('list', name='bad').get('pids'))
call('quit', waiting=True); d.wait(timeout=20)
sys.exit(0 if st in ('stopped', 'active') else 1)
