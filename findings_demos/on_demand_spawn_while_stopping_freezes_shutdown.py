"""SIGTERM during the background start of an on_demand watcher whose workers ignore SIGTERM: does circusd exit?"""
import os, signal, socket, subprocess, sys, tempfile, time
from circus.client import CircusClient
tmp = tempfile.mkdtemp(prefix='od_demo')
def port():
    s = socket.socket(); s.bind(('127.0.0.1', 0)); p = s.getsockname()[1]; s.close(); return p
ep, pub, web = port(), port(), port()
worker = "import signal,time; signal.signal(signal.SIGTERM, signal.SIG_IGN); time.sleep(600)"
ini = os.path.join(tmp, 'c.ini')
open(ini, 'w').write("""[circus]
check_delay = 5
endpoint = tcp://127.0.0.1:%d
pubsub_endpoint = tcp://127.0.0.1:%d

[watcher:lazy]
cmd = %s -c "%s"
on_demand = True
use_sockets = True
numprocesses = 2
warmup_delay = 4
graceful_timeout = 2

[socket:web]
host = 127.0.0.1
port = %d
""" % (ep, pub, sys.executable, worker, web))
d = subprocess.Popen([sys.executable, '-m', 'circus.circusd', '--log-level', 'debug', ini], stdout=open(os.path.join(tmp, 'circusd.log'), 'w'), stderr=subprocess.STDOUT)
c = CircusClient(endpoint='tcp://127.0.0.1:%d' % ep, timeout=5)
for _ in range(50):
    try:
        if c.call({'command': 'status', 'properties': {'name': 'lazy'}})['status'] == 'stopped':
            break
    except Exception:
        time.sleep(0.2)
s = socket.create_connection(('127.0.0.1', web))
pids = []
for _ in range(200):
    r = c.call({'command': 'list', 'properties': {'name': 'lazy'}})
    pids = r.get('pids', [])
    if pids:
        break
    time.sleep(0.05)
print('first worker', pids, 'status', c.call({'command': 'status', 'properties': {'name': 'lazy'}})['status'])
seen = set(pids)
time.sleep(3)
d.send_signal(signal.SIGTERM)
t0 = time.time()
while time.time() - t0 < 6 and d.poll() is None:
    try:
        for ch in open('/proc/%d/task/%d/children' % (d.pid, d.pid)).read().split():
            seen.add(int(ch))
    except OSError:
        pass
    time.sleep(0.05)
print('children of circusd seen:', sorted(seen))
try:
    rc = d.wait(timeout=15)
    print('circusd exited with', rc)
    out = 0
except subprocess.TimeoutExpired:
    print('circusd still running 15 s after SIGTERM (frozen)')
    out = 1
left = [p for p in seen if os.path.exists('/proc/%d' % p) and 'Z' not in open('/proc/%d/stat' % p).read().split(')')[1][:3]]
print('workers left:', left)
for p in left:
    try: os.kill(int(p), 9)
    except OSError: pass
if d.poll() is None:
    d.kill(); d.wait()
sys.exit(out or (1 if left else 0))
