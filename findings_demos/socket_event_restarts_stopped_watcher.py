"""A watcher stopped by the operator must stay stopped when a connection arrives for ANOTHER (on_demand) watcher."""
import os, signal, socket, subprocess, sys, tempfile, time
from circus.client import CircusClient
tmp = tempfile.mkdtemp(prefix='od_demo')
def port():
    s = socket.socket(); s.bind(('127.0.0.1', 0)); p = s.getsockname()[1]; s.close(); return p
ep, pub, web = port(), port(), port()
ini = os.path.join(tmp, 'c.ini')
open(ini, 'w').write("""[circus]
check_delay = 1
endpoint = tcp://127.0.0.1:%d
pubsub_endpoint = tcp://127.0.0.1:%d

[watcher:lazy]
cmd = sleep 600
on_demand = True
use_sockets = True

[watcher:plain]
cmd = sleep 600

[socket:web]
host = 127.0.0.1
port = %d
""" % (ep, pub, web))
d = subprocess.Popen([sys.executable, '-m', 'circus.circusd', ini], stdout=subprocess.DEVNULL, stderr=subprocess.DEVNULL)
c = CircusClient(endpoint='tcp://127.0.0.1:%d' % ep, timeout=5)
def call(cmd, **p):
    return c.call({'command': cmd, 'properties': p})
for _ in range(50):
    try:
        if call('status', name='plain')['status'] == 'active':
            break
    except Exception:
        pass
    time.sleep(0.2)
print('stop plain ->', call('stop', name='plain', waiting=True)['status'], '; status', call('status', name='plain')['status'])
s = socket.create_connection(('127.0.0.1', web))
time.sleep(3.5)
st_lazy, st_plain = call('status', name='lazy')['status'], call('status', name='plain')['status']
print('after a connection to the socket: lazy', st_lazy, '; plain', st_plain, call('list', name='plain')['pids'])
call('quit', waiting=True)
d.wait(timeout=20)
sys.exit(0 if (st_plain == 'stopped' and st_lazy == 'active') else 1)
