"""on_demand watcher: when its last worker dies it reports 'stopped' -- the event channel must say so too."""
import json, os, signal, socket, subprocess, sys, tempfile, time
import zmq
from circus.client import CircusClient
tmp = tempfile.mkdtemp(prefix='od_demo')
def port():
    s = socket.socket(); s.bind(('127.0.0.1', 0)); p = s.getsockname()[1]; s.close(); return p
ep, pub, web = port(), port(), port()
ini = os.path.join(tmp, 'c.ini')
open(ini, 'w').write("""[circus]
check_delay = 1
endpoint = tcp://127.0.0.1:%d
pubsub_endpoint = tcp://127.0.0.1:%d

[watcher:lazy]
cmd = sleep 600
on_demand = True
use_sockets = True

[socket:web]
host = 127.0.0.1
port = %d
""" % (ep, pub, web))
d = subprocess.Popen([sys.executable, '-m', 'circus.circusd', ini], stdout=subprocess.DEVNULL, stderr=subprocess.DEVNULL)
ctx = zmq.Context()
sub = ctx.socket(zmq.SUB); sub.setsockopt(zmq.SUBSCRIBE, b'watcher.lazy.'); sub.connect('tcp://127.0.0.1:%d' % pub)
c = CircusClient(endpoint='tcp://127.0.0.1:%d' % ep, timeout=5)
def call(cmd, **p):
    return c.call({'command': cmd, 'properties': p})
for _ in range(50):
    try:
        if call('status', name='lazy')['status'] == 'stopped':
            break
    except Exception:
        pass
    time.sleep(0.2)
s = socket.create_connection(('127.0.0.1', web))
pids = []
for _ in range(100):
    pids = call('list', name='lazy').get('pids', [])
    if pids and call('status', name='lazy')['status'] == 'active':
        break
    time.sleep(0.05)
conn = None
s.close()
time.sleep(0.3)
os.kill(pids[0], signal.SIGKILL)
time.sleep(2.5)
status = call('status', name='lazy')['status']
events = []
while sub.poll(200):
    topic, msg = sub.recv_multipart()
    events.append(topic.decode().rsplit('.', 1)[1])
life = [e for e in events if e in ('start', 'stop')]
print('status', status, '; events', events)
call('quit', waiting=True); d.wait(timeout=20)
ok = all(a != b for a, b in zip(life, life[1:]))        # start and stop events alternate
sys.exit(0 if ok else 1)
