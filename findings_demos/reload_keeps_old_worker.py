"""Graceful reload while a worker of the NEW generation dies at once: no worker of the old generation may survive the reload."""
import os, sys, tempfile, time, subprocess, socket
from circus.client import CircusClient
tmp = tempfile.mkdtemp()
def port():
    s = socket.socket(); s.bind(('127.0.0.1', 0)); p = s.getsockname()[1]; s.close(); return p
ep, pub = port(), port()
script = os.path.join(tmp, 'w.sh')
open(script, 'w').write('#!/bin/sh\n# the worker with id 3 (first one of the second generation) crashes at start-up\n[ "$1" = 3 ] && exit 1\nexec sleep 600\n')
os.chmod(script, 0o755)
ini = os.path.join(tmp, 'c.ini')
open(ini, 'w').write("""[circus]
check_delay = 5
endpoint = tcp://127.0.0.1:%d
pubsub_endpoint = tcp://127.0.0.1:%d

[watcher:w]
cmd = %s $(circus.wid)
numprocesses = 2
graceful_timeout = 1
""" % (ep, pub, script))
d = subprocess.Popen([sys.executable, '-m', 'circus.circusd', ini], stdout=subprocess.DEVNULL, stderr=subprocess.DEVNULL)
c = CircusClient(endpoint='tcp://127.0.0.1:%d' % ep, timeout=10)
def call(cmd, **p):
    return c.call({'command': cmd, 'properties': p})
for _ in range(50):
    try:
        if len(call('list', name='w').get('pids', [])) == 2:
            break
    except Exception:
        pass
    time.sleep(0.2)
old = set(call('list', name='w')['pids'])
r = call('reload', name='w', waiting=True)
time.sleep(0.5)
new = set(call('list', name='w')['pids'])
print('before', sorted(old), 'reload ->', r.get('status'), r.get('info'), 'after', sorted(new))
call('quit', waiting=True); d.wait(timeout=20)
sys.exit(1 if old & new else 0)
